#!/usr/bin/env python3
# prints, per property, what the last run recorded in evidence/<id>.json: kernels, paths / states, tier, wall time,
# and the fix / known-finding counts of known_findings.json (used to refresh the overview table of DESIGN.md §0)
import json, os, re, collections
root = os.path.dirname(os.path.dirname(os.path.abspath(__file__)))
kf = json.load(open(os.path.join(root, 'known_findings.json')))
fixed = collections.Counter(re.search(r'property=(C\d\d)', l).group(1) for l in kf['fixed'])
known = collections.Counter(f['property'] for f in kf['findings'])
print("| id | kernels of the last run (paths / distinct states) | tier | wall | fixes recorded for it | known classes |")
print("|---|---|---|---|---|---|")
for i in range(1, 21):
    pid = "C%02d" % i
    try:
        ev = json.load(open(os.path.join(root, 'evidence', pid + '.json')))
    except Exception:
        continue
    ks = ev['coverage']['kernels']
    cells = []
    wall = 0
    for k in ks:
        p, s = k.get('paths', 0), k.get('distinct_states', 0)
        cells.append("%s %s" % (k['kernel'], ("%d/%d" % (p, s)) if s != p else str(p)))
        wall += k.get('wall_s', 0)
    print("| %s | %s | %s | %ds | %d | %d |" % (pid, "; ".join(cells), ev.get('tier', ev.get('mode', '?')), wall, fixed[pid], known[pid]))
