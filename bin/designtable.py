#!/usr/bin/env python3
# rewrites the last two columns of the overview table of DESIGN.md §0 from evidence/*.json and known_findings.json
import json, re, collections, os
root = os.path.dirname(os.path.dirname(os.path.abspath(__file__)))
kf = json.load(open(root + '/known_findings.json'))
fixed = collections.Counter(re.search(r'property=(C\d\d)', l).group(1) for l in kf['fixed'])
known = collections.Counter(f['property'] for f in kf['findings'])
s = open(root + '/DESIGN.md').read()
i = s.index('## 0. Overview'); j = s.index('## 1. The technique')
out = []
for line in s[i:j].split('\n'):
    m = re.match(r'\| (C\d\d) \|', line)
    if not m:
        out.append(line); continue
    pid = m.group(1)
    cols = [c.strip() for c in line.strip().strip('|').split(' | ')]
    ev = json.load(open(root + '/evidence/%s.json' % pid))
    cells = []
    for k in ev['coverage']['kernels']:
        p, st = k.get('paths', 0), k.get('distinct_states', 0)
        cells.append('%s %s' % (k['kernel'], ('%d paths / %d states' % (p, st)) if st != p else ('%d paths' % p)))
    res = 'holds'
    if fixed[pid]:
        res += ' after %d recorded fix%s' % (fixed[pid], 'es' if fixed[pid] > 1 else '')
    if known[pid]:
        res += '; %d recorded class%s' % (known[pid], 'es' if known[pid] > 1 else '')
    cols[4] = '; '.join(cells); cols[5] = res
    out.append('| ' + ' | '.join(cols) + ' |')
open(root + '/DESIGN.md', 'w').write(s[:i] + '\n'.join(out) + s[j:])
print("table rewritten")
