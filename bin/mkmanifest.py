#!/usr/bin/env python3
# Regenerates /verif/MANIFEST.json from the table below (kept in one place so that the manifest stays valid).
import json, os
ROOT = os.path.dirname(os.path.dirname(os.path.abspath(__file__)))
TECH = "bounded symbolic execution of the real Go SSA (go/ssa) with SMT-decided branches/obligations (z3; cvc5 for strings)"
claims = {
 "C01": ("DESIGN.md §4 C01", "Whole request path (Handler, Parse, Plan, Execute, Clean, Emit, merger) interpreted symbolically against evaluating fake services and a single-server reference, for every scenario operation x lazily case-split world (list lengths <= k, nulls, duplicates) x 5 gateway configurations; variable values and scalar leaves stay symbolic and are compared by the solver.",
         "gqlparser runs natively on concrete strings; scenario schemas/operations are a fixed list; one canonical goroutine schedule; encoding/json = abstract codec"),
 "C02": ("DESIGN.md §4 C02", "Same interpreted request path as C01 with per-sub-request obligations: every sub-request the fake services receive is parsed and validated by the real gqlparser against the receiving service's own schema; every variable it uses is declared and accompanied by the client's (symbolic) value; the union of sub-requests covers every client-selected (type, field); additions are only id/__typename/node.",
         "gqlparser runs natively; scenario list; worlds with non-empty lists so every child step is issued; canonical schedule"),
 "C03": ("DESIGN.md §4 C03-C05", "ExtendMergerFunc.Merge (mergeTypes, mergeRootObjects, mergeCustomObjects(Fields), implements/possible types/directives, gqlparser's formatter) and SanitizeNodeMergerFunc interpreted end to end over the SymSchema descriptor (2 services x 7 kinds of shared type x field subsets x field signature variants x root-field toggles; 3 services x 3 kinds in thorough): on success every declared type/field/argument (name, type, default)/enum value/union member/implements edge is present with the same signature, nothing else is, a type declared by several services appears once, the node-hiding merger differs only by Query.node.",
         "descriptor-bounded schemas rendered to SDL per path; gqlparser.LoadSchema native"),
 "C04": ("DESIGN.md §4 C03-C05", "TypeURLMap.SetFromSchema/Get/GetURLs/GetTypeIsImplementsNode after an interpreted Merge over the SymSchema descriptor: every root field routes to its declaring service, every field of the shared object type routes to a service that declares it, IsImplementsNode iff implements Node, GetURLs = contributing services, no field of the merged schema without a route.",
         "descriptor-bounded schemas; gqlparser.LoadSchema native"),
 "C05": ("DESIGN.md §4 C03-C05", "Merge over the SymSchema descriptor under every permutation of the service list: each conflict of the property's list (same root field twice, one name for different kinds, Node in one service only, overlapping non-id field of a Node type, partially overlapping plain type/input, different field signature, different union members) must yield an error and never a panic; acceptance, merged type/field signature and Node-field routes must not depend on the order.",
         "descriptor-bounded schemas; gqlparser.LoadSchema native; the expected verdict comes from a 30-line reference predicate over the descriptor"),
 "C06": ("DESIGN.md §4 C06", "Mutation operations over two services with mutation roots, x 3 configurations (plain, id hint, caching planner primed with the same-selection query) x single downstream fault (which service, which call): each selected mutation root field is executed exactly once per client request in a `mutation` sub-request at its owner, everything else is a `query` through node.",
         "gqlparser runs natively; scenario list of 6 mutation operations; single faults only; canonical schedule"),
 "C07": ("DESIGN.md §4 C07", "parseRequest/IsBatchMode over every JSON shape of the descriptor and injectFile over every path of <= 4-5 structured segments (numerals symbolic in [-2,3]) x variable trees: no panic (every implicit Go run-time check is an obligation), acceptance iff well-formed, upload lands where the path says.",
         "bodies are renderings of JSON shapes (not arbitrary bytes); encoding/json = abstract codec over the real decoder for concrete text"),
 "C08": ("DESIGN.md §4 C08", "Real Handler/queryHandler closures/Emit/Parse/AsyncMapReduce under every interleaving (stateful search with partial-order reduction at visible operations + happens-before race detector) for batches of <= 2 (quick) / 3 (thorough) operations drawn from an 11-class pool (ok, mutation, exec error, partial, slow, plan error, introspection, syntax error, unknown field, ambiguous, wrong operationName); differential oracle: result i equals what the same operation got when sent alone.",
         "executor is a harness fake (real planner behind a failing wrapper); gqlparser native; engine's model of the Go runtime primitives"),
 "C09": ("DESIGN.md §4 C09", "K1: Query/queryBatch/fetch/sendRequest against a transport whose answer is arbitrary within the descriptor (transport error; status symbolic in [100,599]; non-JSON; JSON of the wrong shape; array of symbolic length 0..n+2; null / error-carrying / malformed elements): no panic, failure signal implies error, never partial results next to an error. K2: gateway over the real MultiOpQueryer with one downstream answer mutilated (8 kinds x 3 depths x service x call x element, 4 operations): well-formed response, failure signals reported, no value in data that no service returned, next request served normally.",
         "net/http = harness transport; JSON = abstract codec; gqlparser native; canonical schedule; single mutilation per run"),
 "C10": ("DESIGN.md §4 C10", "K1: 14 invalid operations (mutations of valid ones, validity decided by the real validator) alone and next to a valid operation in a batch: data null, errors non-empty, the gateway's validation code for unknown/ambiguous operations, and no downstream request other than those of the valid sibling (differential). K2: 1-2 GraphQL errors with symbolic message atoms, extensions (absent/null/{}/members with symbolic values), path, locations, injected in the root or the child step, travel through the real queryBatch -> AsyncMapReduce -> executor -> FormatError -> Emit chain and reach the client with message, extensions and path preserved.",
         "gqlparser native; net/http = harness transport; JSON = abstract codec; canonical schedule"),
 "C11": ("DESIGN.md §4 C11", "Real Query/queryBatch/fetch with real AsyncMapReduce: all interleavings for N<=2..3 with m symbolic; canonical schedule for N<=7..12, m symbolic; one inductive step of the reducer closure from an arbitrary valid accumulator (any completion order, any chunk count <= nmax); transport failure bits symbolic.",
         "http client = harness transport; JSON = abstract codec; engine's model of channels/WaitGroup/select"),
 "C12": ("DESIGN.md §4 C12", "executeRequests/setIMap/indexMap with <= 3..4 requests whose entity ids are symbolic string atoms (the solver case-splits every equality pattern), two sub-queries, with/without a forwarded client variable and the id-to-type hint: one call per service and level, exactly the distinct (id, sub-query) lookups are sent, every request receives the answer computed for its own entity and step, answers are deep copies; plus the pipeline kernel counting batched calls per service against plan levels for lists up to k.",
         "ids are atoms without '#'/':'; gqlparser native; canonical schedule"),
 "C13": ("DESIGN.md §4 C13", "Self-composition on the interpreted request path: every scenario operation is sent twice to one gateway; data, the set of errors and the multiset of sub-requests per service must coincide while the engine makes the iteration order of up to `maporder` (1 quick / 2 thorough) map range loops of the code under test symbolic (insertion order, reversed, rotated), including those of merger, planner, formatter, executor and scrubber.",
         "three alternative orders per diverging range loop, not all permutations; canonical goroutine schedule; gqlparser native"),
 "C14": ("DESIGN.md §4 C14", "CachedPlanner.Plan/hash/clean with the real SequentialPlanner inside vs. the plain planner on the same context, for every history of <= 2 (quick) / 3 (thorough) requests over an 11-operation pool (same selection with different operation type / name / variable values / aliases / fragment bodies), TTL in {0,1,10} and a symbolic monotone clock (expiry between requests is decided by the solver); plus two concurrent Plan calls under every interleaving with the happens-before race detector on the two cache maps.",
         "time.Now = symbolic clock; gqlparser and sha1 native on concrete input; engine's RWMutex model"),
 "C15": ("DESIGN.md §4 C15", "introspectRemoteSchema / parseQueryerResponse (typed decoding driven by remote.go's struct tags through the abstract codec) / parseType / parseTypeRef / parseArgList / parseInputField over a spec-shaped introspection answer rendered from a symbolic descriptor: 10 list/non-null wrapper shapes up to depth 5 for field and argument types, argument / input-field defaults (Int, String, list literals), deprecations, directive with 0-1 arguments, descriptions, optional mutation root, and 3 malformed variants (truncated reference, nameless or unknown possible type) that must yield an error and not a panic.",
         "descriptor-bounded answers; final gqlparser.LoadSchema native; gqlparser's formatter interpreted"),
 "C16": ("DESIGN.md §4 C16", "The gateway's introspection resolver (resolveSchema/Type/Field/InputValue/Directive) through the real handler on a merged scenario schema: for each of 9 types, __type(name:) by literal and by variable equals the entry of __schema.types, and the entry is compared with the ast.Schema used for validation (kind, fields, wrappers, arguments, defaults, deprecations, possible types, input fields, enum values, spec null-ness per kind); plus the round trip through another gateway's introspectRemoteSchema.",
         "one scenario schema; gqlparser native; JSON = abstract codec"),
 "C17": ("DESIGN.md §4 C17", "newSubscriptionEntry (real planner), Listen, prepareResponse, the executorFn closure (FindInsertionPoints + real executor + scrub) and the real (*MultiOpQueryer).Subscribe goroutines over the websocket model: 1-2 subscriptions x 0-2 (3) events each drawn from {entity h1, entity h2, upstream error payload}; the client's data frames per subscription id must be exactly the upstream's events, in order, each once, equal to the reference evaluation of the client's operation on the merged schema (stitched field of the other service included, helper id removed), errors forwarded with their message, no frame under a foreign id. Thorough adds every interleaving for one subscription with two events.",
         "websocket library = harness model; upstream evaluates the forwarded subscription (validated natively); quick tier: canonical schedule"),
 "C18": ("DESIGN.md §4 C18", "The real subscriptionHandler message loop, subscriptionDict.Clean(All), subscriptionEntry.Listen/Close, sendHeartbeat, newSubscriptionEntry (real planner) and the goroutines of (*MultiOpQueryer).Subscribe under EVERY interleaving (stateful search, partial-order reduction at visible operations, race detector): client scripts (start / stop / stop unknown / terminate / malformed / unknown type / second start, then abrupt disconnect), upstream scripts (0-1 events then complete / error frame / disconnect / stays open), heartbeat ticks; obligations: no unrecovered panic, no fatal error, no deadlock, no goroutine alive once the handler returned, every frame contiguous and well-formed.",
         "websocket library = harness connection model (frame = two writes); upgrade/dial succeed; engine's model of channels, select, Mutex/TryLock, defer/recover; quick: 1 client message, thorough: 2"),
 "C19": ("DESIGN.md §4 C19", "End to end over the multipart models: requests.Parse (multipart branch) + injectFile -> planner/executor -> extractFiles / UploadMap / prepareMultipart / fetchFile / queryBatch: six layouts (top-level, nested input object, list, two services, a service that does not use the variable, one file at two paths) x single/batched: the owning service receives a multipart call whose operations document has null at the named path, whose map names the same path and whose part has the same file name and bytes; services that do not use the variable receive no file.",
         "mime/multipart modelled on both sides (parsed form in, tree of parts out); gqlparser native; canonical schedule"),
 "C20": ("DESIGN.md §4 C20", "AsyncMapReduce[int,int,[]int] under every interleaving (stateful search, no pre-emption bound) for n<=3 (quick) / 4 (thorough), failure bit per item symbolic, with a happens-before race detector, deadlock and goroutine-leak detection.",
         "engine's model of channels, select, WaitGroup, defer; map/reduce functions neither panic nor block"),
}
all_ids = ["C%02d" % i for i in range(1, 21)]
na_reason = {}
for i in all_ids:
    if i not in claims:
        na_reason[i] = "check not built yet in this session (planned: see DESIGN.md §4); nothing is claimed"
checks = []
for pid, (ref, text, note) in sorted(claims.items()):
    checks.append({
        "property_id": pid,
        "quick_cmd": "bin/check %s quick" % pid,
        "thorough_cmd": "bin/check %s thorough" % pid,
        "evidence_file": "/verif/evidence/%s.json" % pid,
        "replay_cmd_template": "bin/check %s --replay {path}" % pid,
        "engine": "symgo",
        "level_claimed": {"category": "model_checking", "text": text, "design_ref": ref},
        "level_note": note,
        "technique": TECH,
    })
m = {
 "version": 1,
 "setup_cmd": "cd /verif/engine && GOFLAGS=-mod=mod GOPROXY=off GOSUMDB=off GOTOOLCHAIN=local go build -o /verif/out/symgo.setup . && rm -f /verif/out/symgo.setup",
 "hooks": {"guard": "verif", "enable": "harnesses are go/packages overlays (package-internal files injected at load time, build tag verif set); no tagged source lives in /repo",
           "baseline_off_cmd": "cd /repo && go test -vet=off -count=1 ./...", "source_commits": [], "add_only": True},
 "engines": [{"name": "symgo", "path": "/verif/engine", "serves_properties": sorted(claims.keys()),
              "kind_free_text": "bounded symbolic executor for Go SSA (go/ssa + go/packages v0.29.0) with SMT back ends (z3 4.8.12 incremental, cvc5 1.0 for strings, z3-new 5.1.0 cross-check): symbolic scalars/tokens over a concrete heap, stateful all-interleavings scheduler, happens-before race detector, native gqlparser set-up with snapshot import/export"}],
 "checks": checks,
 "not_applicable": [{"property_id": k, "reason": v} for k, v in sorted(na_reason.items())],
 "notes": "Exit codes: 0 held on everything explored; 1 + VIOLATION line = replayed counterexample outside the recorded known findings; 2 + INCONCLUSIVE = the encoder could not decide (unsupported construct, solver unknown, unwinding bound, vacuity).",
}
json.dump(m, open(os.path.join(ROOT, "MANIFEST.json"), "w"), indent=1)
print("wrote MANIFEST.json with", len(checks), "checks")
