package main

func init() {
	reg(&Property{
		ID:    "C20",
		Title: "The parallel map/reduce helper maps every item once and reduces serially",
		Kernels: []Kernel{{
			Name: "amr", Pkg: "common", Files: []string{"common/c20.go"}, Entry: "VerifAMR", Mode: "all", Race: true, Native: true,
			Quick:     map[string]int{"nmax": 4},
			Thorough:  map[string]int{"nmax": 5},
			Reach:     []string{"mixed success and failure", "empty input"},
			Functions: []string{"common.AsyncMapReduce[int,int,[]int]", "common.AsyncMapReduce$1", "common.AsyncMapReduce$2", "gqlerrors.ExtendErrorList", "gqlerrors.FormatError", "gqlerrors.NewError"},
		}, {
			// many items under the canonical schedule: what depends on how many items fail or run at once
			Name: "amr-many-items", Pkg: "common", Files: []string{"common/c20.go"}, Entry: "VerifAMR", Mode: "seq",
			Quick:     map[string]int{"nmax": 12, "prefixfail": 1},
			Thorough:  map[string]int{"nmax": 12},
			Reach:     []string{"mixed success and failure", "empty input"},
			Functions: []string{"common.AsyncMapReduce[int,int,[]int]", "common.AsyncMapReduce$1", "common.AsyncMapReduce$2", "gqlerrors.ExtendErrorList", "gqlerrors.FormatError"},
		}, {
			Name: "amr-interface-results", Pkg: "common", Files: []string{"common/c20.go"}, Entry: "VerifAMRInterface", Mode: "all", Race: true,
			Quick:     map[string]int{"nmax": 3},
			Thorough:  map[string]int{"nmax": 4},
			Reach:     []string{"interface results reduced"},
			Functions: []string{"common.AsyncMapReduce[int,interface{},[]interface{}]"},
		}},
		Assume: []string{
			"trusted model of the Go runtime inside the engine: channels (FIFO wait queues), select, WaitGroup, defer/recover, goroutine creation",
			"map and reduce functions of the harness neither panic nor block",
		},
		Outside: []string{"inputs longer than nmax (amr: 4 / 5 items under every interleaving; amr-many-items: up to 12 items under the canonical schedule, on every change with the first or last k items failing, in the thorough tier with every failure pattern)", "instantiations other than [int,int,[]int] and [int,interface{},[]interface{}] (the generic body is shared)", "map/reduce functions that panic or block"},
	})
}
