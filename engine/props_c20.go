package main

func init() {
	reg(&Property{
		ID:    "C20",
		Title: "The parallel map/reduce helper maps every item once and reduces serially",
		Kernels: []Kernel{{
			Name: "amr", Pkg: "common", Files: []string{"common/c20.go"}, Entry: "VerifAMR", Mode: "all", Race: true, Native: true,
			Quick:     map[string]int{"nmax": 4},
			Thorough:  map[string]int{"nmax": 5},
			Reach:     []string{"mixed success and failure", "empty input"},
			Functions: []string{"common.AsyncMapReduce[int,int,[]int]", "common.AsyncMapReduce$1", "common.AsyncMapReduce$2", "gqlerrors.ExtendErrorList", "gqlerrors.FormatError", "gqlerrors.NewError"},
		}},
		Assume: []string{
			"trusted model of the Go runtime inside the engine: channels (FIFO wait queues), select, WaitGroup, defer/recover, goroutine creation",
			"map and reduce functions of the harness neither panic nor block",
		},
		Outside: []string{"inputs longer than nmax", "instantiations other than [int,int,[]int] (the generic body is shared)", "map/reduce functions that panic or block"},
	})
}
