package main

import (
	"fmt"
	"go/types"
	"reflect"
	"sync"
	"unsafe"

	"github.com/vektah/gqlparser/v2"
	"github.com/vektah/gqlparser/v2/ast"
	"github.com/vektah/gqlparser/v2/gqlerror"
	"github.com/vektah/gqlparser/v2/parser"
)

// Native set-up and snapshot import/export (DESIGN §2.7): gqlparser's lexer, parser and validator
// run natively on concrete strings; their results are imported into the interpreter heap by
// reflection, and interpreter object graphs (the gateway's schema) are exported back when the
// native function needs them. Pointer identity is preserved in both directions.

type Exporter struct {
	m     *Machine
	ptrs  map[*Value]reflect.Value // interpreter cell -> native pointer
	maps  map[*MapV]reflect.Value
	count int
}

func (m *Machine) newExporter() *Exporter {
	return &Exporter{m: m, ptrs: map[*Value]reflect.Value{}, maps: map[*MapV]reflect.Value{}}
}

func settable(f reflect.Value) reflect.Value {
	if !f.CanSet() && f.CanAddr() {
		return reflect.NewAt(f.Type(), unsafe.Pointer(f.UnsafeAddr())).Elem()
	}
	return f
}

func (e *Exporter) Export(v Value, rt reflect.Type) reflect.Value {
	e.count++
	m := e.m
	switch rt.Kind() {
	case reflect.Bool:
		b, ok := v.(bool)
		if !ok {
			b = m.truth(v)
		}
		return reflect.ValueOf(b).Convert(rt)
	case reflect.Int, reflect.Int8, reflect.Int16, reflect.Int32, reflect.Int64:
		return reflect.ValueOf(m.concInt(v, "export")).Convert(rt)
	case reflect.Uint, reflect.Uint8, reflect.Uint16, reflect.Uint32, reflect.Uint64:
		return reflect.ValueOf(uint64(m.concInt(v, "export"))).Convert(rt)
	case reflect.Float64, reflect.Float32:
		return reflect.ValueOf(v.(float64)).Convert(rt)
	case reflect.String:
		return reflect.ValueOf(m.concStr(v, "export")).Convert(rt)
	case reflect.Ptr:
		p, _ := v.(Ptr)
		if p == nil {
			return reflect.Zero(rt)
		}
		if n, ok := e.ptrs[(*Value)(p)]; ok {
			return n
		}
		n := reflect.New(rt.Elem())
		e.ptrs[(*Value)(p)] = n
		e.fill(n.Elem(), *p)
		return n
	case reflect.Struct:
		n := reflect.New(rt).Elem()
		e.fill(n, v)
		return n
	case reflect.Slice:
		s, _ := v.(*SliceV)
		if s == nil || s.Nil {
			return reflect.Zero(rt)
		}
		n := reflect.MakeSlice(rt, len(s.A), len(s.A))
		for i := range s.A {
			n.Index(i).Set(e.Export(s.A[i], rt.Elem()))
		}
		return n
	case reflect.Array:
		a := v.(Array)
		n := reflect.New(rt).Elem()
		for i := range a {
			n.Index(i).Set(e.Export(a[i], rt.Elem()))
		}
		return n
	case reflect.Map:
		mp, _ := v.(*MapV)
		if mp == nil {
			return reflect.Zero(rt)
		}
		if n, ok := e.maps[mp]; ok {
			return n
		}
		n := reflect.MakeMapWithSize(rt, len(mp.Keys))
		e.maps[mp] = n
		for i := range mp.Keys {
			n.SetMapIndex(e.Export(mp.Keys[i], rt.Key()), e.Export(mp.Vals[i], rt.Elem()))
		}
		return n
	case reflect.Interface:
		i, _ := v.(Iface)
		if i.T == nil {
			return reflect.Zero(rt)
		}
		drt := e.reflectType(i.T)
		n := reflect.New(rt).Elem()
		n.Set(e.Export(i.V, drt))
		return n
	case reflect.Func:
		return reflect.Zero(rt)
	}
	panic(fmt.Sprintf("export: kind %s", rt.Kind()))
}

func (e *Exporter) fill(dst reflect.Value, v Value) {
	if dst.Kind() == reflect.Struct {
		s := v.(Struct)
		for i := 0; i < dst.NumField(); i++ {
			f := settable(dst.Field(i))
			f.Set(e.Export(s[i], f.Type()))
		}
		return
	}
	dst.Set(e.Export(v, dst.Type()))
}

var nativeNamed = map[string]reflect.Type{}

func regNative(samples ...interface{}) {
	for _, s := range samples {
		t := reflect.TypeOf(s)
		nativeNamed[t.PkgPath()+"."+t.Name()] = t
	}
}

func init() {
	regNative(ast.Field{}, ast.InlineFragment{}, ast.FragmentSpread{}, ast.FragmentDefinition{}, ast.OperationDefinition{}, ast.Schema{},
		ast.Definition{}, ast.FieldDefinition{}, ast.ArgumentDefinition{}, ast.Value{}, ast.ChildValue{}, ast.Type{}, ast.Directive{},
		ast.DirectiveDefinition{}, ast.Argument{}, ast.Position{}, ast.Source{}, ast.VariableDefinition{}, ast.QueryDocument{},
		ast.SchemaDocument{}, ast.EnumValueDefinition{}, ast.PathName(""), ast.PathIndex(0), gqlerror.Error{})
}

// reflectType maps a go/types type of the loaded program to the engine's native reflect.Type
func (e *Exporter) reflectType(t types.Type) reflect.Type {
	switch t := t.(type) {
	case *types.Named:
		if t.Obj().Pkg() != nil {
			if rt, ok := nativeNamed[t.Obj().Pkg().Path()+"."+t.Obj().Name()]; ok {
				return rt
			}
		}
		return e.reflectType(t.Underlying())
	case *types.Alias:
		return e.reflectType(types.Unalias(t))
	case *types.Pointer:
		return reflect.PtrTo(e.reflectType(t.Elem()))
	case *types.Slice:
		return reflect.SliceOf(e.reflectType(t.Elem()))
	case *types.Map:
		return reflect.MapOf(e.reflectType(t.Key()), e.reflectType(t.Elem()))
	case *types.Interface:
		if t.NumMethods() == 0 {
			return reflect.TypeOf((*interface{})(nil)).Elem()
		}
	case *types.Basic:
		switch t.Kind() {
		case types.Bool:
			return reflect.TypeOf(false)
		case types.Int:
			return reflect.TypeOf(int(0))
		case types.Int64:
			return reflect.TypeOf(int64(0))
		case types.Int32:
			return reflect.TypeOf(int32(0))
		case types.Float64:
			return reflect.TypeOf(float64(0))
		case types.String:
			return reflect.TypeOf("")
		}
	}
	e.m.fail("unsupported", "export: no native type for "+t.String())
	return nil
}

// importerSeeded returns an importer whose memo maps the exporter's native pointers back to the
// interpreter cells they came from.
func (m *Machine) importerSeeded(e *Exporter) *Importer {
	im := NewImporter(m.prog)
	if e != nil {
		for cell, n := range e.ptrs {
			im.memo[unsafe.Pointer(n.Pointer())] = Ptr(cell)
		}
		for mp, n := range e.maps {
			im.maps[unsafe.Pointer(n.Pointer())] = mp
		}
	}
	return im
}

func (m *Machine) safeNative(what string, f func()) {
	defer func() {
		if r := recover(); r != nil {
			if _, ok := r.(stopPath); ok {
				panic(r)
			}
			if _, ok := r.(goPanicSig); ok {
				panic(r)
			}
			m.fail("unsupported", fmt.Sprintf("native %s panicked: %v", what, r))
		}
	}()
	f()
}

type schemaCacheEntry struct {
	sc  *ast.Schema
	err error
}

var schemaCache sync.Map

func init() {
	const gp = "github.com/vektah/gqlparser/v2."
	loadSchema := func(must bool) func(m *Machine, a []Value) Value {
		return func(m *Machine, a []Value) Value {
			var res Value
			m.safeNative("LoadSchema", func() {
				ex := m.newExporter()
				srcs := ex.Export(a[0], reflect.TypeOf([]*ast.Source{})).Interface().([]*ast.Source)
				key := "LoadSchema"
				for _, s := range srcs {
					key += "\x00" + s.Name + "\x00" + s.Input
				}
				if cr := m.cachedImport(key); cr != nil {
					res = cr.root
					return
				}
				var sc *ast.Schema
				var err error
				if c, ok := schemaCache.Load(key); ok {
					// the native result is only read by the importer: safe to share between paths
					sc, err = c.(*schemaCacheEntry).sc, c.(*schemaCacheEntry).err
				} else {
					sc, err = gqlparser.LoadSchema(srcs...)
					schemaCache.Store(key, &schemaCacheEntry{sc, err})
				}
				im := m.importerSeeded(ex)
				if must {
					if err != nil {
						panic(goPanicSig{val: im.Import(reflect.ValueOf(&err).Elem()), msg: "MustLoadSchema: " + err.Error()})
					}
					res = im.Import(reflect.ValueOf(sc))
					return
				}
				var e Value = Iface{}
				if err != nil {
					var ei error = err
					e = im.Import(reflect.ValueOf(&ei).Elem())
				}
				res = Tuple{im.Import(reflect.ValueOf(sc)), e}
				m.freezeKeyed(key, res)
			})
			return res
		}
	}
	R(gp+"LoadSchema", loadSchema(false))
	R(gp+"MustLoadSchema", loadSchema(true))
	loadQuery := func(must bool) func(m *Machine, a []Value) Value {
		return func(m *Machine, a []Value) Value {
			var res Value
			m.safeNative("LoadQuery", func() {
				var ex *Exporter
				var sc *ast.Schema
				reg := m.regionOf(a[0])
				if reg != nil && m.ex.exportCache[reg] != nil {
					// the schema has not been written to since it was exported: reuse the native copy
					c := m.ex.exportCache[reg]
					ex, sc = c.ex, c.native.(*ast.Schema)
					ex.m = m
				} else {
					ex = m.newExporter()
					sc = ex.Export(a[0], reflect.TypeOf((*ast.Schema)(nil))).Interface().(*ast.Schema)
					if reg != nil {
						if m.ex.exportCache == nil {
							m.ex.exportCache = map[*region]*exportCache{}
						}
						m.ex.exportCache[reg] = &exportCache{native: sc, ex: ex}
					}
				}
				q := m.concStr(a[1], "query string")
				doc, errs := gqlparser.LoadQuery(sc, q)
				im := m.importerSeeded(ex)
				if must {
					if errs != nil {
						panic(goPanicSig{val: Iface{T: types.Typ[types.String], V: errs.Error()}, msg: "MustLoadQuery: " + errs.Error()})
					}
					res = im.Import(reflect.ValueOf(doc))
					return
				}
				res = Tuple{im.Import(reflect.ValueOf(doc)), im.Import(reflect.ValueOf(errs))}
				if tag := m.regionTagOf(a[0]); tag != "" {
					m.freezeKeyed("LoadQuery\x00"+tag+"\x00"+q, res)
				} else {
					m.freeze(res)
				}
			})
			return res
		}
	}
	// parser.ParseQuery / ParseSchema on a concrete source: lexer and parser run natively
	R("github.com/vektah/gqlparser/v2/parser.ParseQuery", func(m *Machine, a []Value) Value {
		var res Value
		m.safeNative("ParseQuery", func() {
			ex := m.newExporter()
			src := ex.Export(a[0], reflect.TypeOf((*ast.Source)(nil))).Interface().(*ast.Source)
			doc, err := parser.ParseQuery(src)
			im := m.importerSeeded(ex)
			var e Value = Iface{}
			if err != nil {
				e = im.Import(reflect.ValueOf(&err).Elem())
			}
			res = Tuple{im.Import(reflect.ValueOf(doc)), e}
			m.freeze(res)
		})
		return res
	})
	R(gp+"LoadQuery", loadQuery(false))
	R(gp+"MustLoadQuery", loadQuery(true))
}
