package main

func init() {
	reg(&Property{
		ID:    "C12",
		Title: "Downstream round trips are bounded by plan shape, not by result size",
		Kernels: []Kernel{
			{Name: "dedup", Pkg: "executor", Files: []string{"executor/c12.go"}, Entry: "VerifDedup", Mode: "seq", Native: true,
				Quick: map[string]int{"kmax": 3}, Thorough: map[string]int{"kmax": 4},
				Reach:     []string{"skipped by hint", "some lookups de-duplicated", "nothing to de-duplicate"},
				Functions: []string{"executor.(*DepthExecutor).executeRequests", "executor.(*DepthExecutor).getVariables", "executor.(*DepthExecutor).isNeedToQuery", "executor.(*DepthExecutor).setIMap", "executor.indexMap.Set", "executor.indexMap.GetSameIndexes", "executor.(*CachedPointDataExtractor).Extract", "executor.copyMap"}},
			{Name: "point-syntax", Pkg: "executor", Files: []string{"executor/c12.go"}, Entry: "VerifPointData", Mode: "seq",
				Reach: []string{"point parsed"}, Functions: []string{"executor.(*CachedPointDataExtractor).Extract"}},
			{Name: "roundtrips", Pkg: ".", Files: []string{"root/fed.go", "root/c01.go", "root/c02.go"}, Entry: "VerifRoundTrips", Mode: "seq", Native: true,
				Quick: map[string]int{"k": 2}, Thorough: map[string]int{"k": 4},
				Reach: []string{"round trips counted", "stitched answer compared", "batched call inspected"}, Functions: pipelineFns},
		},
		Assume: []string{
			"entity ids are string atoms known up to equality (all equality patterns among <= kmax ids are explored), containing no '#' or ':'",
			"gqlparser runs natively; one canonical schedule; encoding/json = abstract codec",
		},
		Outside: []string{"more than kmax requests per level", "lists longer than k", "operations outside the scenario list"},
	})
}
