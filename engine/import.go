package main

import (
	"fmt"
	"go/types"
	"reflect"
	"sort"
	"unsafe"

	"golang.org/x/tools/go/ssa"
)

// Importer converts native Go values (built by the real code, natively) into interpreter values.
type Importer struct {
	prog  *ssa.Program
	memo  map[unsafe.Pointer]Ptr   // pointer identity
	maps  map[unsafe.Pointer]*MapV // map identity
	named map[string]types.Type    // pkgpath.Name -> types.Type
	count int
}

func NewImporter(prog *ssa.Program) *Importer {
	return &Importer{prog: prog, memo: map[unsafe.Pointer]Ptr{}, maps: map[unsafe.Pointer]*MapV{}, named: map[string]types.Type{}}
}

// typeOf maps a reflect.Type to a go/types type of the loaded program
func (im *Importer) typeOf(rt reflect.Type) types.Type {
	if rt.Name() != "" && rt.PkgPath() != "" {
		key := rt.PkgPath() + "." + rt.Name()
		if t, ok := im.named[key]; ok {
			return t
		}
		pkg := im.prog.ImportedPackage(rt.PkgPath())
		if pkg == nil {
			panic("import: package not loaded: " + rt.PkgPath())
		}
		obj := pkg.Pkg.Scope().Lookup(rt.Name())
		if obj == nil {
			panic("import: type not found: " + key)
		}
		im.named[key] = obj.Type()
		return obj.Type()
	}
	switch rt.Kind() {
	case reflect.Bool:
		return types.Typ[types.Bool]
	case reflect.Int:
		return types.Typ[types.Int]
	case reflect.Int64:
		return types.Typ[types.Int64]
	case reflect.Float64:
		return types.Typ[types.Float64]
	case reflect.String:
		return types.Typ[types.String]
	case reflect.Ptr:
		return ptrTo(im.typeOf(rt.Elem()))
	case reflect.Slice:
		return types.NewSlice(im.typeOf(rt.Elem()))
	case reflect.Map:
		return types.NewMap(im.typeOf(rt.Key()), im.typeOf(rt.Elem()))
	case reflect.Interface:
		if rt.NumMethod() == 0 {
			return types.NewInterfaceType(nil, nil)
		}
	}
	panic("import: unnamed type not handled: " + rt.String())
}

func (im *Importer) Import(v reflect.Value) Value {
	im.count++
	switch v.Kind() {
	case reflect.Bool:
		return v.Bool()
	case reflect.Int, reflect.Int8, reflect.Int16, reflect.Int32, reflect.Int64:
		return v.Int()
	case reflect.Uint, reflect.Uint8, reflect.Uint16, reflect.Uint32, reflect.Uint64:
		return int64(v.Uint())
	case reflect.Float64, reflect.Float32:
		return v.Float()
	case reflect.String:
		return v.String()
	case reflect.Ptr:
		if v.IsNil() {
			return Ptr(nil)
		}
		key := unsafe.Pointer(v.Pointer())
		if p, ok := im.memo[key]; ok {
			return p
		}
		cell := new(Value)
		im.memo[key] = cell // before recursing: cycles
		*cell = im.Import(v.Elem())
		return Ptr(cell)
	case reflect.Struct:
		s := make(Struct, v.NumField())
		for i := 0; i < v.NumField(); i++ {
			f := v.Field(i)
			if !f.CanInterface() && f.CanAddr() { // unexported: read through unsafe
				f = reflect.NewAt(f.Type(), unsafe.Pointer(f.UnsafeAddr())).Elem()
			}
			s[i] = im.Import(f)
		}
		return s
	case reflect.Slice:
		if v.IsNil() {
			return &SliceV{Nil: true}
		}
		a := make([]Value, v.Len())
		for i := range a {
			a[i] = im.Import(v.Index(i))
		}
		return &SliceV{A: a}
	case reflect.Array:
		a := make(Array, v.Len())
		for i := range a {
			a[i] = im.Import(v.Index(i))
		}
		return a
	case reflect.Map:
		if v.IsNil() {
			return (*MapV)(nil)
		}
		key := unsafe.Pointer(v.Pointer())
		if m, ok := im.maps[key]; ok {
			return m
		}
		mv := &MapV{}
		im.maps[key] = mv
		keys := v.MapKeys()
		sort.Slice(keys, func(i, j int) bool { return fmt.Sprint(keys[i].Interface()) < fmt.Sprint(keys[j].Interface()) })
		for _, k := range keys {
			mv.Keys = append(mv.Keys, im.Import(k))
			mv.Vals = append(mv.Vals, im.Import(v.MapIndex(k)))
		}
		return mv
	case reflect.Interface:
		if v.IsNil() {
			return Iface{}
		}
		e := v.Elem()
		return Iface{T: im.typeOf(e.Type()), V: im.Import(e)}
	case reflect.Func:
		if v.IsNil() {
			return (*Closure)(nil)
		}
		panic("import: non-nil func")
	}
	panic("import: kind " + v.Kind().String())
}
