package main

func init() {
	files := []string{"root/fed.go", "root/c01.go", "root/ws.go", "root/c17.go"}
	fns := []string{"(*Gateway).subscriptionHandler", "(*Gateway).newSubscriptionEntry", "(*Gateway).newSubscriptionEntry$1 (executorFn)", "(*subscriptionEntry).Listen", "(*subscriptionEntry).prepareResponse", "(*subscriptionEntry).Close", "subscriptionDict.Clean(All)", "executor.FindInsertionPoints", "executor.ParallelExecutor.Execute", "planner.SequentialPlanner.Plan", "planner.ScrubFields.Clean", "queryer.(*MultiOpQueryer).Subscribe (+ its two goroutines)", "gqlerrors.FormatError"}
	reg(&Property{
		ID:    "C17",
		Title: "Subscription events are delivered once, in order, fully stitched",
		Kernels: []Kernel{
			{Name: "events-canonical-schedule", Pkg: ".", Files: files, Entry: "VerifEvents", Mode: "seq",
				Quick: map[string]int{"maxsubs": 2, "maxevents": 2, "quickmerge": 0}, Thorough: map[string]int{"maxsubs": 2, "maxevents": 3, "quickmerge": 0},
				Reach: []string{"two subscriptions", "events checked"}, Functions: fns},
			{Name: "events-all-interleavings", Pkg: ".", Files: files, Entry: "VerifEvents", Mode: "all", Race: true, ThoroughOnly: true,
				Quick: map[string]int{"maxsubs": 1, "maxevents": 2, "stitch": 0}, Thorough: map[string]int{"maxsubs": 1, "maxevents": 2, "stitch": 0, "budget_s": 10000},
				Reach: []string{"events checked"}, Functions: fns},
		},
		Assume: []string{
			"websocket library = harness connection model; the upstream service evaluates the subscription the gateway actually forwarded (validated natively against its own schema) over the world of each event",
			"events-canonical-schedule: one canonical goroutine schedule, 1-2 subscriptions x 0-2(3) events each drawn from {entity h1, entity h2, upstream error payload}; events-all-interleavings (thorough tier only): 1 subscription on fields of its own service, 0-2 events, every interleaving",
		},
		Outside: []string{"several client connections", "more events / subscriptions than the bounds", "real websocket framing"},
	})
}
