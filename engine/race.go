package main

import (
	"fmt"
	"strings"
	"sync"

	"golang.org/x/tools/go/ssa"
)

// Vector-clock happens-before race detector over heap cells and map objects.
// Interleaving only at synchronisation operations is sound for data-race-free executions;
// this detector reports executions that are not (what `go test -race` would flag, but on
// every explored schedule).

type accessRec struct {
	wG    int // goroutine of last write (-1 none)
	wClk  int
	wPos  ssa.Instruction
	reads map[int]int // goroutine -> clock of last read
	rdPos map[int]ssa.Instruction
}

type raceState struct {
	cells map[interface{}]*accessRec
}

func (m *Machine) raceOn() bool { return m.race != nil }

func vcGet(vc []int, i int) int {
	if i < len(vc) {
		return vc[i]
	}
	return 0
}

func vcJoin(dst *[]int, src []int) {
	for len(*dst) < len(src) {
		*dst = append(*dst, 0)
	}
	for i, v := range src {
		if v > (*dst)[i] {
			(*dst)[i] = v
		}
	}
}

func (m *Machine) vcTick(g *G) {
	for len(g.vc) <= g.id {
		g.vc = append(g.vc, 0)
	}
	g.vc[g.id]++
}

func (m *Machine) raceFork(parent, child *G) {
	if !m.raceOn() {
		return
	}
	m.vcTick(parent)
	child.vc = append([]int{}, parent.vc...)
	m.vcTick(child)
	m.vcTick(parent)
}

func (m *Machine) raceAcquire(g *G, vc []int) {
	if !m.raceOn() || g == nil {
		return
	}
	vcJoin(&g.vc, vc)
}

func (m *Machine) raceRelease(g *G, vc *[]int) {
	if !m.raceOn() || g == nil {
		return
	}
	m.vcTick(g)
	vcJoin(vc, g.vc)
	m.vcTick(g)
}

func (m *Machine) raceRendezvous(a, b *G) {
	if !m.raceOn() {
		return
	}
	m.vcTick(a)
	m.vcTick(b)
	vcJoin(&a.vc, b.vc)
	vcJoin(&b.vc, a.vc)
	m.vcTick(a)
	m.vcTick(b)
}

func (m *Machine) raceBufSend(g *G, ch *Chan) {
	if !m.raceOn() {
		return
	}
	m.vcTick(g)
	ch.bufVC = append(ch.bufVC, append([]int{}, g.vc...))
	m.vcTick(g)
}

func (m *Machine) raceBufRecv(g *G, ch *Chan) {
	if !m.raceOn() {
		return
	}
	if len(ch.bufVC) > 0 {
		vcJoin(&g.vc, ch.bufVC[0])
		ch.bufVC = ch.bufVC[1:]
	}
}

func (m *Machine) raceRec(key interface{}) *accessRec {
	r := m.race.cells[key]
	if r == nil {
		r = &accessRec{wG: -1}
		m.race.cells[key] = r
	}
	return r
}

func (m *Machine) raceAccess(g *G, key interface{}, write bool, in ssa.Instruction) {
	if !m.raceOn() || g == nil {
		return
	}
	if len(m.gs) <= 1 {
		return
	}
	if m.inLinearisableModel(in) {
		// harness models of thread-safe library objects (connections, recorders) are linearisable by
		// construction: they only change state in blocks delimited by visible operations
		return
	}
	r := m.raceRec(key)
	m.vcTick(g)
	// conflict with last write by another goroutine?
	if r.wG >= 0 && r.wG != g.id && vcGet(g.vc, r.wG) < r.wClk {
		kind := "read"
		if write {
			kind = "write"
		}
		panic(stopPath{&PathEnd{Kind: "race", Msg: fmt.Sprintf("DATA RACE: %s at %s conflicts with write at %s in another goroutine", kind, m.pos(in), m.pos(r.wPos))}})
	}
	if write {
		for rg, clk := range r.reads {
			if rg != g.id && vcGet(g.vc, rg) < clk {
				panic(stopPath{&PathEnd{Kind: "race", Msg: fmt.Sprintf("DATA RACE: write at %s conflicts with read at %s in another goroutine", m.pos(in), m.pos(r.rdPos[rg]))}})
			}
		}
		r.wG, r.wClk, r.wPos = g.id, g.vc[g.id], in
		r.reads, r.rdPos = nil, nil
	} else {
		if r.reads == nil {
			r.reads, r.rdPos = map[int]int{}, map[int]ssa.Instruction{}
		}
		r.reads[g.id] = g.vc[g.id]
		r.rdPos[g.id] = in
	}
}

func (m *Machine) raceRead(g *G, p Ptr, in ssa.Instruction) {
	if m.race != nil {
		m.raceAccess(g, (*Value)(p), false, in)
	}
}
func (m *Machine) raceWrite(g *G, p Ptr, in ssa.Instruction) {
	if m.race != nil {
		m.raceAccess(g, (*Value)(p), true, in)
	}
}
func (m *Machine) raceReadObj(g *G, o interface{}, in ssa.Instruction) {
	if m.race != nil {
		m.raceAccess(g, o, false, in)
	}
}
func (m *Machine) raceWriteObj(g *G, o interface{}, in ssa.Instruction) {
	if m.race != nil {
		m.raceAccess(g, o, true, in)
	}
}

var linModelCache sync.Map

// inLinearisableModel: the access happens inside the harness model of a thread-safe library object
// (the websocket connection model: methods of vConn and the verifWs* functions)
func (m *Machine) inLinearisableModel(in ssa.Instruction) bool {
	if in == nil || in.Parent() == nil {
		return false
	}
	f := in.Parent()
	if v, ok := linModelCache.Load(f); ok {
		return v.(bool)
	}
	top := f
	for top.Parent() != nil {
		top = top.Parent()
	}
	is := false
	if m.inHarness(in) {
		n := top.Name()
		if strings.HasPrefix(n, "verifWs") {
			is = true
		}
		if recv := top.Signature.Recv(); recv != nil && strings.Contains(recv.Type().String(), ".vConn") {
			is = true
		}
	}
	linModelCache.Store(f, is)
	return is
}
