package main

import (
	"go/types"
	"net/url"
	"reflect"

	"golang.org/x/tools/go/ssa"
)

// Environment model for websockets, context cancellation and tickers (DESIGN §2.6). The behaviour of a
// connection lives in harness Go code (interpreted, natively compilable); these intrinsics only route
// the library entry points to it.

func (m *Machine) callHarness(g *G, fr *Frame, in ssa.Instruction, name string, args []Value, conv func(Value) Value) {
	f := m.harnessFunc(name)
	if in == nil {
		m.fail("unsupported", name+" in deferred position")
	}
	m.pushFrame(g, f, nil, args, in)
	if conv != nil {
		m.top(g).onReturn = conv
	}
}

func init() {
	regNative(url.URL{}, url.Userinfo{})
	const wsu = "github.com/gobwas/ws/wsutil."
	const wsp = "github.com/gobwas/ws."
	write := func(m *Machine, g *G, fr *Frame, in ssa.Instruction, args []Value) {
		m.callHarness(g, fr, in, "verifWsWrite", []Value{args[0], args[1]}, nil)
	}
	read := func(m *Machine, g *G, fr *Frame, in ssa.Instruction, args []Value) {
		m.callHarness(g, fr, in, "verifWsRead", []Value{args[0]}, nil)
	}
	intrinsics[wsu+"WriteServerText"] = write
	intrinsics[wsu+"WriteClientText"] = write
	intrinsics[wsu+"ReadClientText"] = read
	intrinsics[wsu+"ReadServerText"] = read
	intrinsics[wsp+"ReadFrame"] = func(m *Machine, g *G, fr *Frame, in ssa.Instruction, args []Value) {
		m.callHarness(g, fr, in, "verifWsReadFrame", []Value{args[0]}, nil)
	}
	intrinsics["("+wsp+"Dialer).Dial"] = func(m *Machine, g *G, fr *Frame, in ssa.Instruction, args []Value) {
		hs := zero(m.namedType("github.com/gobwas/ws", "Handshake"))
		m.callHarness(g, fr, in, "verifWsDial", []Value{args[2]}, func(res Value) Value {
			t := res.(Tuple)
			return Tuple{t[0], Ptr(nil), hs, t[1]}
		})
	}
	intrinsics["("+wsp+"HTTPUpgrader).Upgrade"] = func(m *Machine, g *G, fr *Frame, in ssa.Instruction, args []Value) {
		hs := zero(m.namedType("github.com/gobwas/ws", "Handshake"))
		m.callHarness(g, fr, in, "verifWsUpgrade", nil, func(res Value) Value {
			t := res.(Tuple)
			return Tuple{t[0], Ptr(nil), hs, t[1]}
		})
	}
	intrinsics[wsp+"WriteFrame"] = func(m *Machine, g *G, fr *Frame, in ssa.Instruction, args []Value) {
		m.callHarness(g, fr, in, "verifWsWriteFrame", []Value{args[0]}, nil)
	}
	R(wsp+"NewCloseFrameBody", func(m *Machine, a []Value) Value { return bytesVal([]byte("close-body")) })
	R(wsp+"NewCloseFrame", func(m *Machine, a []Value) Value { return zero(m.namedType("github.com/gobwas/ws", "Frame")) })
	intrinsics[wsp+"WriteHeader"] = func(m *Machine, g *G, fr *Frame, in ssa.Instruction, args []Value) {
		m.callWrite(g, fr, in, args[0].(Iface), bytesVal([]byte("close-header")).(*SliceV), func(res Value) Value { return res.(Tuple)[1] })
	}

	// ---- net/url ----
	R("net/url.Parse", func(m *Machine, a []Value) Value {
		u, err := url.Parse(m.concStr(a[0], "url"))
		if err != nil {
			return Tuple{Ptr(nil), m.errorValue(err.Error())}
		}
		im := NewImporter(m.prog)
		return Tuple{im.Import(reflect.ValueOf(u)), Iface{}}
	})
	R("(*net/url.URL).String", func(m *Machine, a []Value) Value {
		ex := m.newExporter()
		u := ex.Export(a[0], reflect.TypeOf((*url.URL)(nil))).Interface().(*url.URL)
		return u.String()
	})

	// ---- context ----
	intrinsics["context.WithCancel"] = func(m *Machine, g *G, fr *Frame, in ssa.Instruction, args []Value) {
		m.callHarness(g, fr, in, "verifNewCancel", nil, func(res Value) Value {
			t := res.(Tuple)
			ctx := Iface{T: ptrTo(m.namedType("context", "cancelCtx")), V: newCell(&Opaque{Kind: "cancelCtx", X: t[0]})}
			return Tuple{ctx, t[1]}
		})
	}
	R("(*context.cancelCtx).Done", func(m *Machine, a []Value) Value {
		o := (*(a[0].(Ptr))).(*Opaque)
		return o.X.(*Chan)
	})
	R("(*context.cancelCtx).Err", func(m *Machine, a []Value) Value {
		o := (*(a[0].(Ptr))).(*Opaque)
		if o.X.(*Chan).Closed {
			return m.ctxCanceledErr(false)
		}
		return Iface{}
	})
	nilDone := func(m *Machine, a []Value) Value { return (*Chan)(nil) }
	R("(context.backgroundCtx).Done", nilDone)
	R("(context.todoCtx).Done", nilDone)
	R("(*context.emptyCtx).Done", nilDone)
	R("(context.emptyCtx).Done", nilDone)

	// ---- time.Ticker: a harness goroutine (verifTicker) feeds the channel; Stop ends it ----
	intrinsics["time.NewTicker"] = func(m *Machine, g *G, fr *Frame, in ssa.Instruction, args []Value) {
		t := m.namedType("time", "Ticker")
		c := newCell(zero(t))
		m.nchan++
		ch := &Chan{ID: m.nchan, Cap: 1, Elem: m.namedType("time", "Time")}
		m.nchan++
		stop := &Chan{ID: m.nchan, Cap: 0, Elem: types.NewStruct(nil, nil)}
		m.setField(c, t, "C", ch)
		m.side[c] = stop
		ng := &G{id: len(m.gs), started: "time.NewTicker at " + m.pos(in)}
		m.gs = append(m.gs, ng)
		m.raceFork(g, ng)
		m.pushFrame(ng, m.harnessFunc("verifTicker"), nil, []Value{ch, stop}, nil)
		m.setResult(fr, in, c)
	}
	intrinsics["(*time.Ticker).Stop"] = func(m *Machine, g *G, fr *Frame, in ssa.Instruction, args []Value) {
		if stop, ok := m.side[args[0].(Ptr)].(*Chan); ok && !stop.Closed {
			m.chanClose(g, stop, in)
		}
		m.setResult(fr, in, nil)
	}
	visibleIntrinsics["(*time.Ticker).Stop"] = true
}

// ctxCanceledErr: the context.Canceled sentinel of this machine (so that errors.Is recognises it), bare
// (Context.Err) or wrapped the way net/http's client returns it
func (m *Machine) ctxCanceledErr(wrapped bool) Value {
	var sentinel Value = m.errorValue("context canceled")
	if cp := m.prog.ImportedPackage("context"); cp != nil {
		if gv, ok := cp.Members["Canceled"].(*ssa.Global); ok {
			sentinel = *m.global(gv)
		}
	}
	if !wrapped {
		return sentinel
	}
	if fp := m.prog.ImportedPackage("fmt"); fp != nil && fp.Type("wrapError") != nil {
		return Iface{T: ptrTo(fp.Type("wrapError").Type()), V: newCell(Struct{"Post: context canceled", sentinel})}
	}
	return sentinel
}
