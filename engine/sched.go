package main

import (
	"fmt"
	"go/types"

	"golang.org/x/tools/go/ssa"
)

func (m *Machine) wake(g *G) {
	g.state = Runnable
	g.blockedOn = ""
}

func (m *Machine) block(g *G, on string) {
	g.state = Blocked
	g.blockedOn = on
}

func popLive(q *[]*Waiter) *Waiter {
	for len(*q) > 0 {
		w := (*q)[0]
		*q = (*q)[1:]
		if w.Done || (w.Sel != nil && w.Sel.Fired) {
			continue
		}
		return w
	}
	return nil
}

func hasLive(q []*Waiter) bool {
	for _, w := range q {
		if !(w.Done || (w.Sel != nil && w.Sel.Fired)) {
			return true
		}
	}
	return false
}

// completeWaiter finishes the parked operation of waiter w (its goroutine sits on the instruction)
func (m *Machine) completeWaiter(w *Waiter, recvVal Value, ok bool) {
	w.Done = true
	fr := m.top(w.G)
	in := fr.block.Instrs[fr.pc]
	if w.Sel != nil {
		w.Sel.Fired = true
		sel := w.Sel.Instr
		m.setResult(fr, sel, m.selectResult(sel, w.CaseIdx, recvVal, ok))
	} else {
		switch in := in.(type) {
		case *ssa.Send:
			fr.pc++
		case *ssa.UnOp:
			if in.CommaOk {
				m.setResult(fr, in, Tuple{recvVal, ok})
			} else {
				m.setResult(fr, in, recvVal)
			}
		}
	}
	m.wake(w.G)
}

func (m *Machine) selectResult(sel *ssa.Select, fired int, recvVal Value, ok bool) Value {
	t := Tuple{int64(fired), ok}
	for i, st := range sel.States {
		if st.Dir == types.RecvOnly {
			el := st.Chan.Type().Underlying().(*types.Chan).Elem()
			if i == fired && recvVal != nil {
				t = append(t, recvVal)
			} else {
				t = append(t, zero(el))
			}
		}
	}
	return t
}

func (m *Machine) chanSend(g *G, fr *Frame, in *ssa.Send, ch *Chan, v Value) {
	if ch == nil {
		m.block(g, "send on nil chan")
		return
	}
	if ch.Closed {
		m.throw("send on closed channel at " + m.pos(in))
	}
	if w := popLive(&ch.RecvQ); w != nil {
		m.raceRendezvous(g, w.G)
		m.completeWaiter(w, v, true)
		fr.pc++
		return
	}
	if len(ch.Buf) < ch.Cap {
		ch.Buf = append(ch.Buf, v)
		m.raceBufSend(g, ch)
		fr.pc++
		return
	}
	ch.SendQ = append(ch.SendQ, &Waiter{G: g, Val: v, IsSend: true})
	m.block(g, fmt.Sprintf("send ch%d at %s", ch.ID, m.pos(in)))
}

func (m *Machine) chanRecv(g *G, fr *Frame, in *ssa.UnOp, ch *Chan, commaOk bool) {
	if ch == nil {
		m.block(g, "recv on nil chan")
		return
	}
	res := func(v Value, ok bool) {
		if commaOk {
			m.setResult(fr, in, Tuple{v, ok})
		} else {
			m.setResult(fr, in, v)
		}
	}
	if len(ch.Buf) > 0 {
		v := ch.Buf[0]
		ch.Buf = ch.Buf[1:]
		m.raceBufRecv(g, ch)
		if w := popLive(&ch.SendQ); w != nil {
			ch.Buf = append(ch.Buf, w.Val)
			m.raceBufSend(w.G, ch)
			m.completeWaiter(w, nil, false)
		}
		res(v, true)
		return
	}
	if w := popLive(&ch.SendQ); w != nil {
		v := w.Val
		m.raceRendezvous(g, w.G)
		m.completeWaiter(w, nil, false)
		res(v, true)
		return
	}
	if ch.Closed {
		m.raceAcquire(g, ch.vc)
		res(zero(ch.Elem), false)
		return
	}
	ch.RecvQ = append(ch.RecvQ, &Waiter{G: g})
	m.block(g, fmt.Sprintf("recv ch%d at %s", ch.ID, m.pos(in)))
}

func (m *Machine) chanClose(g *G, ch *Chan, in ssa.Instruction) {
	if ch == nil {
		m.throw("close of nil channel")
	}
	if ch.Closed {
		m.throw("close of closed channel at " + m.pos(in))
	}
	ch.Closed = true
	m.raceRelease(g, &ch.vc)
	for {
		w := popLive(&ch.RecvQ)
		if w == nil {
			break
		}
		m.raceAcquire(w.G, ch.vc)
		m.completeWaiter(w, zero(ch.Elem), false)
	}
	for {
		w := popLive(&ch.SendQ)
		if w == nil {
			break
		}
		// the parked sender panics (in its own goroutine)
		w.Done = true
		if w.Sel != nil {
			w.Sel.Fired = true
		}
		wf := m.top(w.G)
		m.startPanic(w.G, Iface{T: types.Typ[types.String], V: "send on closed channel"}, "send on closed channel at "+m.pos(wf.block.Instrs[wf.pc]))
	}
}

func (m *Machine) selectOp(g *G, fr *Frame, in *ssa.Select) {
	// collect ready cases
	var ready []int
	for i, st := range in.States {
		ch, _ := m.get(fr, st.Chan).(*Chan)
		if ch == nil {
			continue
		}
		if st.Dir == types.SendOnly {
			if ch.Closed || hasLive(ch.RecvQ) || len(ch.Buf) < ch.Cap {
				ready = append(ready, i)
			}
		} else {
			if len(ch.Buf) > 0 || hasLive(ch.SendQ) || ch.Closed {
				ready = append(ready, i)
			}
		}
	}
	if len(ready) > 0 {
		k := ready[m.ex.choose(m, len(ready), "select")]
		st := in.States[k]
		ch := m.get(fr, st.Chan).(*Chan)
		if st.Dir == types.SendOnly {
			if ch.Closed {
				m.throw("send on closed channel (select) at " + m.pos(in))
			}
			v := copyVal(m.get(fr, st.Send))
			if w := popLive(&ch.RecvQ); w != nil {
				m.raceRendezvous(g, w.G)
				m.completeWaiter(w, v, true)
			} else {
				ch.Buf = append(ch.Buf, v)
				m.raceBufSend(g, ch)
			}
			m.setResult(fr, in, m.selectResult(in, k, nil, false))
			return
		}
		var v Value
		ok := true
		if len(ch.Buf) > 0 {
			v = ch.Buf[0]
			ch.Buf = ch.Buf[1:]
			m.raceBufRecv(g, ch)
			if w := popLive(&ch.SendQ); w != nil {
				ch.Buf = append(ch.Buf, w.Val)
				m.raceBufSend(w.G, ch)
				m.completeWaiter(w, nil, false)
			}
		} else if w := popLive(&ch.SendQ); w != nil {
			v = w.Val
			m.raceRendezvous(g, w.G)
			m.completeWaiter(w, nil, false)
		} else {
			m.raceAcquire(g, ch.vc)
			v, ok = zero(ch.Elem), false
		}
		m.setResult(fr, in, m.selectResult(in, k, v, ok))
		return
	}
	if !in.Blocking {
		m.setResult(fr, in, m.selectResult(in, -1, nil, false))
		return
	}
	ss := &SelState{Instr: in}
	n := 0
	for i, st := range in.States {
		ch, _ := m.get(fr, st.Chan).(*Chan)
		if ch == nil {
			continue
		}
		n++
		if st.Dir == types.SendOnly {
			ch.SendQ = append(ch.SendQ, &Waiter{G: g, Val: copyVal(m.get(fr, st.Send)), Sel: ss, CaseIdx: i, IsSend: true})
		} else {
			ch.RecvQ = append(ch.RecvQ, &Waiter{G: g, Sel: ss, CaseIdx: i})
		}
	}
	m.block(g, "select at "+m.pos(in))
}

// ---- sync ----

type Mu struct {
	locked   bool
	readers  int
	waiters  []*G // writers
	rwaiters []*G
	vc       []int
}

type OnceSt struct {
	done    bool
	running bool
	vc      []int
}

func (m *Machine) wg(p Ptr) *WG {
	w, ok := m.wgs[p]
	if !ok {
		w = &WG{}
		m.wgs[p] = w
	}
	return w
}

func (m *Machine) mu(p Ptr) *Mu {
	x, ok := m.mus[p]
	if !ok {
		x = &Mu{}
		m.mus[p] = x
	}
	return x
}

func (m *Machine) wgCheck(wg *WG) {
	if wg.n < 0 {
		m.throw("sync: negative WaitGroup counter")
	}
	if wg.n == 0 {
		for _, g := range wg.waiters {
			fr := m.top(g)
			m.raceAcquire(g, wg.vc)
			m.setResult(fr, fr.block.Instrs[fr.pc], nil)
			m.wake(g)
		}
		wg.waiters = nil
	}
}

func (m *Machine) fatal(msg string) {
	panic(stopPath{&PathEnd{Kind: "fatal", Msg: "fatal error: " + msg}})
}

var visibleIntrinsics = map[string]bool{}

func init() {
	vis := func(name string, fn intrinsicFn) {
		intrinsics[name] = fn
		visibleIntrinsics[name] = true
	}
	vis("(*sync.WaitGroup).Add", func(m *Machine, g *G, fr *Frame, in ssa.Instruction, args []Value) {
		wg := m.wg(args[0].(Ptr))
		wg.n += m.concInt(args[1], "wg.Add")
		if args[1].(int64) < 0 {
			m.raceRelease(g, &wg.vc)
		}
		m.wgCheck(wg)
		m.setResult(fr, in, nil)
	})
	vis("(*sync.WaitGroup).Done", func(m *Machine, g *G, fr *Frame, in ssa.Instruction, args []Value) {
		wg := m.wg(args[0].(Ptr))
		wg.n--
		m.raceRelease(g, &wg.vc)
		m.wgCheck(wg)
		m.setResult(fr, in, nil)
	})
	vis("(*sync.WaitGroup).Wait", func(m *Machine, g *G, fr *Frame, in ssa.Instruction, args []Value) {
		wg := m.wg(args[0].(Ptr))
		if wg.n == 0 {
			m.raceAcquire(g, wg.vc)
			m.setResult(fr, in, nil)
			return
		}
		if in == nil {
			m.fail("unsupported", "blocking wg.Wait in deferred position")
		}
		wg.waiters = append(wg.waiters, g)
		m.block(g, "wg.Wait at "+m.pos(in))
		// when woken, pc is advanced by wgCheck
	})
	lock := func(m *Machine, g *G, fr *Frame, in ssa.Instruction, args []Value) {
		mu := m.mu(args[0].(Ptr))
		if !mu.locked && mu.readers == 0 {
			mu.locked = true
			m.raceAcquire(g, mu.vc)
			m.setResult(fr, in, nil)
			return
		}
		if in == nil {
			m.fail("unsupported", "blocking Lock in deferred position")
		}
		mu.waiters = append(mu.waiters, g)
		m.block(g, "mutex.Lock at "+m.pos(in))
	}
	tryLock := func(m *Machine, g *G, fr *Frame, in ssa.Instruction, args []Value) {
		mu := m.mu(args[0].(Ptr))
		if !mu.locked && mu.readers == 0 {
			mu.locked = true
			m.raceAcquire(g, mu.vc)
			m.setResult(fr, in, true)
			return
		}
		m.setResult(fr, in, false)
	}
	unlock := func(m *Machine, g *G, fr *Frame, in ssa.Instruction, args []Value) {
		mu := m.mu(args[0].(Ptr))
		if !mu.locked {
			m.fatal("sync: unlock of unlocked mutex at " + m.posOfTop(g, in))
		}
		mu.locked = false
		m.raceRelease(g, &mu.vc)
		m.muHandoff(mu)
		m.setResult(fr, in, nil)
	}
	rlock := func(m *Machine, g *G, fr *Frame, in ssa.Instruction, args []Value) {
		mu := m.mu(args[0].(Ptr))
		if !mu.locked && len(mu.waiters) == 0 {
			mu.readers++
			m.raceAcquire(g, mu.vc)
			m.setResult(fr, in, nil)
			return
		}
		if in == nil {
			m.fail("unsupported", "blocking RLock in deferred position")
		}
		mu.rwaiters = append(mu.rwaiters, g)
		m.block(g, "rwmutex.RLock at "+m.pos(in))
	}
	runlock := func(m *Machine, g *G, fr *Frame, in ssa.Instruction, args []Value) {
		mu := m.mu(args[0].(Ptr))
		if mu.readers <= 0 {
			m.fatal("sync: RUnlock of unlocked RWMutex at " + m.posOfTop(g, in))
		}
		mu.readers--
		m.raceRelease(g, &mu.vc)
		m.muHandoff(mu)
		m.setResult(fr, in, nil)
	}
	vis("(*sync.Mutex).Lock", lock)
	vis("(*sync.Mutex).TryLock", tryLock)
	vis("(*sync.Mutex).Unlock", unlock)
	vis("(*sync.RWMutex).Lock", lock)
	vis("(*sync.RWMutex).TryLock", tryLock)
	vis("(*sync.RWMutex).Unlock", unlock)
	vis("(*sync.RWMutex).RLock", rlock)
	vis("(*sync.RWMutex).RUnlock", runlock)
	vis("verifYield", func(m *Machine, g *G, fr *Frame, in ssa.Instruction, args []Value) {
		m.setResult(fr, in, nil)
	})
	intrinsics["(*sync.Once).Do"] = func(m *Machine, g *G, fr *Frame, in ssa.Instruction, args []Value) {
		p := args[0].(Ptr)
		o := m.onces[p]
		if o == nil {
			o = &OnceSt{}
			m.onces[p] = o
		}
		if o.done {
			m.raceAcquire(g, o.vc)
			m.setResult(fr, in, nil)
			return
		}
		if o.running {
			m.fail("unsupported", "concurrent sync.Once.Do while first call is running")
		}
		o.running = true
		// run f, then mark done: implemented as a call followed by a continuation in ret via onceDone marker
		fn := args[1]
		switch f := fn.(type) {
		case *Closure:
			m.pushFrame(g, f.Fn, f.Env, nil, in)
		case *ssa.Function:
			m.pushFrame(g, f, nil, nil, in)
		}
		m.top(g).onReturn = func(res Value) Value {
			o.done, o.running = true, false
			m.raceRelease(g, &o.vc)
			return res
		}
	}
}

func (m *Machine) posOfTop(g *G, in ssa.Instruction) string {
	if in != nil {
		return m.pos(in)
	}
	fr := m.top(g)
	return m.pos(fr.block.Instrs[fr.pc]) + " (deferred)"
}

// muHandoff passes a released mutex to the next waiter(s), FIFO, writers first
func (m *Machine) muHandoff(mu *Mu) {
	if mu.locked {
		return
	}
	if mu.readers == 0 && len(mu.waiters) > 0 {
		w := mu.waiters[0]
		mu.waiters = mu.waiters[1:]
		mu.locked = true
		m.raceAcquire(w, mu.vc)
		wf := m.top(w)
		m.setResult(wf, wf.block.Instrs[wf.pc], nil)
		m.wake(w)
		return
	}
	if len(mu.waiters) == 0 {
		for _, w := range mu.rwaiters {
			mu.readers++
			m.raceAcquire(w, mu.vc)
			wf := m.top(w)
			m.setResult(wf, wf.block.Instrs[wf.pc], nil)
			m.wake(w)
		}
		mu.rwaiters = nil
	}
}
