package main

func init() {
	fns := []string{"merger.ExtendMergerFunc.Merge", "merger.mergeTypes", "merger.mergeRootObjects", "merger.mergeCustomObjects", "merger.mergeCustomObjectFields", "merger.mergeImplements", "merger.mergePossibleTypes", "merger.mergeDirectives", "merger.formatSchema (gqlparser/formatter interpreted)", "merger.TypeURLMap.SetFromSchema", "merger.TypeURLMap.Get/GetURLs/GetTypeIsImplementsNode", "merger.SanitizeNodeMergerFunc.Merge"}
	mk := func(id, title string, prop int, reach []string, known3, knownP []string, known ...string) {
		reg(&Property{
			ID: id, Title: title,
			Kernels: []Kernel{
				{Name: "symschema", Pkg: "merger", Files: []string{"merger/c03.go"}, Entry: "VerifMerge", Mode: "seq", Native: true,
					Quick: map[string]int{"services": 2, "kinds": 7, "property": prop}, Thorough: map[string]int{"services": 2, "kinds": 7, "property": prop},
					Reach: reach, Functions: fns, Known: known},
				{Name: "symschema-plain-id", Pkg: "merger", Files: []string{"merger/c03.go"}, Entry: "VerifMerge", Mode: "seq",
					Quick: map[string]int{"services": 2, "kinds": 4, "plainid": 1, "property": prop}, Thorough: map[string]int{"services": 3, "kinds": 3, "plainid": 1, "property": prop, "budget_s": 7200},
					Reach: reach, Functions: fns, Known: knownP},
				{Name: "symschema-three-slim", Pkg: "merger", Files: []string{"merger/c03.go"}, Entry: "VerifMerge", Mode: "seq",
					Quick: map[string]int{"services": 3, "kinds": 3, "slim": 1, "property": prop}, Thorough: map[string]int{"services": 3, "kinds": 7, "slim": 1, "property": prop},
					Reach: reach, Functions: fns, Known: known3},
			},
			Assume: []string{
				"symschema-plain-id: kinds absent/object/Node object/input where plain objects and inputs may carry a field id: ID! without implementing Node, and the input field f1 may have a default; every service declares Query.node, no other root toggles",
				"symschema-three-slim: three services on every change over a slim descriptor (kinds absent/object/Node object, field subsets of {f1,f2}, id-only Node types, every service declares Query.node, no other root toggles)",
				"SymSchema descriptor: per service one shared type name T with symbolic kind (absent/object/object implementing Node/enum/input/union/scalar), field subset of {f1,f2}, f1's type in {Int,String} with or without an argument with a default, enum value / union member subsets, a shared root field, Query.node present or not; rendered to concrete SDL per path",
				"gqlparser.LoadSchema (service schemas and the final re-load) runs natively; gqlparser's formatter is interpreted",
			},
			Outside: []string{"schemas outside the descriptor (directives, descriptions, interfaces other than Node, more than one shared type)", "more than 3 services", "three services with the root-field toggles of the two-service descriptor (3 x 10^6 paths: did not finish in an hour)"},
		})
	}
	mk("C03", "The merged schema is exactly the union of the service schemas", 3, []string{"merged schema checked"}, nil, nil)
	// the gateway knows a service's schema through introspection only: what C03 says about "every argument
	// (name, type, default) ... of every service" starts from the schema as introspected (the C15 kernel)
	c03 := properties["C03"]
	c03.Kernels = append(c03.Kernels, Kernel{Name: "service-schema-as-introspected", Pkg: "introspection", Files: []string{"introspection/c15.go"}, Entry: "VerifIntrospect", Mode: "seq",
		Quick: map[string]int{"shapes": 6}, Thorough: map[string]int{"shapes": 10},
		Reach:     []string{"schema reconstructed"},
		Functions: []string{"introspection.introspectRemoteSchema", "introspection.parseQueryerResponse", "introspection.parseType", "introspection.parseTypeRef", "introspection.parseArgList", "introspection.parseInputField"}})
	c03.Assume = append(c03.Assume, "service-schema-as-introspected: the introspection answer is rendered from a descriptor in the shape the GraphQL specification prescribes (see C15)")
	mk("C04", "The routing table names a real owner for every routable field", 4, []string{"routing table checked"}, nil, nil)
	mk("C05", "Conflicting service schemas are rejected, independent of service order", 5, []string{"conflict rejected", "accepted in every order"}, []string{"C05-three-services-partial-overlap"}, []string{"C05-plain-types-sharing-only-id", "C05-three-services-partial-overlap"}, "C05-three-services-partial-overlap", "C05-plain-types-sharing-only-id")
	c05 := properties["C05"]
	c05.Kernels = append(c05.Kernels, Kernel{Name: "service-schema-as-introspected", Pkg: "introspection", Files: []string{"introspection/c15.go"}, Entry: "VerifIntrospect", Mode: "seq",
		Quick: map[string]int{"shapes": 6}, Thorough: map[string]int{"shapes": 10},
		Reach:     []string{"schema reconstructed"},
		Functions: []string{"introspection.introspectRemoteSchema", "introspection.parseQueryerResponse", "introspection.parseType"}})
	c05.Assume = append(c05.Assume, "service-schema-as-introspected: the merger compares what introspection delivers (deprecated declarations included: the responder of the harness lists them only when the query asks for them, as the specification says)")
}
