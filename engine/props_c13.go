package main

func init() {
	reg(&Property{
		ID:    "C13",
		Title: "Planning and responses are deterministic",
		Kernels: []Kernel{
			{Name: "map-orders", Pkg: ".", Files: []string{"root/fed.go", "root/c01.go", "root/c02.go", "root/c13.go"}, Entry: "VerifDeterminism", Mode: "seq", Native: true,
				Quick: map[string]int{"k": 2, "maporder": 1}, Thorough: map[string]int{"k": 1, "maporder": 2, "budget_s": 7200},
				Reach: []string{"two runs compared"}, Functions: pipelineFns},
			{Name: "batch-interleavings", Pkg: ".", Files: []string{"root/fed.go", "root/c01.go", "root/c08.go"}, Entry: "VerifBatch", Mode: "all", Race: true,
				Quick: map[string]int{"rmax": 2, "classes": 15}, Thorough: map[string]int{"rmax": 2, "classes": 15},
				Reach: []string{"batch of several"}, Functions: []string{"(*Gateway).queryHandler", "(*Gateway).queryHandler$1", "(*Gateway).queryHandler$2", "common.AsyncMapReduce[int,*Result,Results]"}},
			{Name: "root-merge-interleavings", Pkg: "executor", Files: []string{"executor/c12.go"}, Entry: "VerifRootMergeOrder", Mode: "all", Race: true,
				Quick: map[string]int{"extra": 1}, Thorough: map[string]int{"extra": 1},
				Reach: []string{"root answers merged"}, Functions: []string{"executor.ParallelExecutor.Execute", "executor.(*DepthExecutorManager).Execute", "executor.(*DepthExecutorManager).merge", "executor.(*DepthExecutor).Execute", "common.AsyncMapReduce[...]"}},
			{Name: "children-order-interleavings", Pkg: "executor", Files: []string{"executor/c12.go"}, Entry: "VerifChildrenOrder", Mode: "all", Race: true,
				Reach: []string{"children stitched", "children failed"}, Functions: []string{"executor.ParallelExecutor.Execute", "executor.(*DepthExecutorManager).Execute", "executor.(*DepthExecutorManager).merge", "executor.(*DepthExecutor).Execute", "executor.(*DepthExecutor).executeRequests", "executor.(*DepthExecutor).getVariables", "executor.(*DepthExecutor).parseRespones", "executor.FindInsertionPoints"}},
			{Name: "repeat-mixed-introspection", Pkg: ".", Files: []string{"root/fed.go", "root/c01.go", "root/c14g.go"}, Entry: "VerifCacheGateway", Mode: "seq",
				Quick: map[string]int{"hmax": 2, "mixedpool": 1, "maporder": 1}, Thorough: map[string]int{"hmax": 3, "mixedpool": 1, "maporder": 1, "budget_s": 7200},
				Reach: []string{"history through the gateway"}, Functions: []string{"(*Gateway).queryHandler", "(*Gateway).parseIntrospectionQuery", "planner.(*CachedPlanner).Plan", "planner.routeSelectionSet"}},
			{Name: "repeat-with-cache", Pkg: ".", Files: []string{"root/fed.go", "root/c01.go", "root/c02.go", "root/c13.go"}, Entry: "VerifRepeatWithCache", Mode: "seq", Native: true,
				Quick: map[string]int{"pairops": 26}, Thorough: map[string]int{"pairops": 0},
				Reach: []string{"repeat compared"}, Functions: pipelineFns},
		},
		Assume: []string{
			"root-merge-interleavings: the real executor on a plan of 2-3 root steps that answer the same response key (a node lookup sent to every service: the owner answers an object, the others null), under EVERY interleaving",
			"children-order-interleavings: the real executor on a plan of two root steps (two services) whose objects are both completed by a third service; ids symbolic in {a, b, empty}; EVERY interleaving; outcomes (data, or the error text) of all completed paths with the same ids are compared by the explorer (verifOutcome)",
			"repeat-mixed-introspection: operations that select introspection fields next to ordinary ones, repeated on one gateway with the caching planner, under symbolic map orders (the C14 kernel of the same name)",
			"repeat-with-cache: every ordered pair (B, A) of the README scenario operations: B, A, B sent to one gateway with the caching planner; both answers to B are compared",
			"map iteration order is a symbolic choice for up to `maporder` range loops of the code under test per run (each such loop runs in insertion order, reversed, or rotated by one), insertion order for the others",
			"self-composition: the same operation is sent twice to the same gateway and the observables are compared",
			"gqlparser native; canonical goroutine schedule for the request path; batch-interleavings: the C08 batch kernel (every interleaving of the per-operation goroutines of a batch of <= 2 operations from 12 classes, each result compared with what the operation receives alone)",
		},
		Outside: []string{"more than `maporder` diverging range loops at once", "operations outside the scenario list", "goroutine interleavings inside the executor (C11, C20)"},
	})
}
