package main

import (
	"fmt"
	"go/constant"
	"go/token"
	"go/types"
	"math"
	"strings"

	"golang.org/x/tools/go/ssa"
)

const tokenEQL = token.EQL

type deferred struct {
	fn   Value
	args []Value
	inst *ssa.Defer
}

type Frame struct {
	fn     *ssa.Function
	locals map[ssa.Value]Value
	env    []Value
	block  *ssa.BasicBlock
	prev   *ssa.BasicBlock
	pc     int
	defers []deferred
	call   ssa.Instruction // instruction in the caller that awaits our result (nil: go/defer)

	isDeferred  bool                  // this frame is a deferred call
	deferParent *Frame                // the frame that deferred it
	viaPanic    *panicRec             // the panic whose unwinding started this deferred call (nil: normal RunDefers)
	recovering  bool                  // a panic was recovered: run remaining defers, then resume at fn.Recover
	onReturn    func(res Value) Value // result adaptor installed by an intrinsic that called back into interpreted code
}

type GState int

const (
	Runnable GState = iota
	Blocked
	Done
)

type panicRec struct {
	val       Value // what recover() returns
	msg       string
	recovered bool
}

type G struct {
	id        int
	frames    []*Frame
	state     GState
	blockedOn string
	atVisible bool // stopped in front of a visible op, scheduler decides who goes next
	panics    []*panicRec
	unwinding bool
	vc        []int // vector clock (race detector)
	started   string
}

type PathEnd struct {
	Kind string // ok | violation | unsupported | inconclusive | infeasible | pruned | deadlock | leak | panic | fatal | race | unwind
	Msg  string
	Pos  string
}

type Machine struct {
	prog        *ssa.Program
	ex          *Worker
	gs          []*G
	globals     map[*ssa.Global]Ptr
	wgs         map[Ptr]*WG
	curIn       ssa.Instruction // the instruction being executed (for environment models that report races)
	mus         map[Ptr]*Mu
	onces       map[Ptr]*OnceSt
	bufs        map[Ptr]*[]Value
	side        map[Ptr]Value
	nchan       int
	steps       int
	pc          []string // path condition conjuncts (smt)
	nsym        map[string]int
	cur         *G
	preempt     int
	conc        map[string]int64 // expressions already pinned on this path
	reached     map[string]bool
	outcomes    [][2]string // verifOutcome(key, outcome) calls of this path
	known       []knownTag
	obls        int // obligations discharged on this path
	frames      []string
	loopCnt     map[*ssa.BasicBlock]int
	race        *raceState
	native      map[string]interface{} // per-path native objects (fake services, worlds, ...)
	trace       []string
	nextID      int
	clock       int64
	events      []string // harness-visible event log (verifLog)
	divergences int
	lastClock   *Sym
	primLog     []primRec
	frozen      map[*Value]frozenRef
	frozenObj   map[interface{}]frozenRef
	regionSeq   map[string]int
}

type knownTag struct {
	id   string
	cond Value // bool or *Sym
}

type WG struct {
	n       int64
	waiters []*G
	vc      []int
}

type stopPath struct{ end *PathEnd }

type goPanicSig struct {
	val Value
	msg string
}

func (m *Machine) fail(kind, msg string) {
	panic(stopPath{&PathEnd{Kind: kind, Msg: msg}})
}

// throw raises a Go run-time panic in the interpreted program (recoverable by the program's own recover()).
func (m *Machine) throw(msg string) {
	panic(goPanicSig{val: Iface{T: types.Typ[types.String], V: "runtime error: " + msg}, msg: msg})
}

// stepSafe runs one step; a recoverable Go panic of the interpreted program starts unwinding
func (m *Machine) stepSafe(g *G) (cont bool) {
	defer func() {
		if r := recover(); r != nil {
			gp, ok := r.(goPanicSig)
			if !ok {
				panic(r)
			}
			m.startPanic(g, gp.val, gp.msg)
			cont = true
		}
	}()
	if g.unwinding {
		m.unwind(g)
		return true
	}
	return m.step(g)
}

func (m *Machine) startPanic(g *G, val Value, msg string) {
	g.panics = append(g.panics, &panicRec{val: val, msg: msg})
	g.unwinding = true
	g.atVisible = false
	if g.state == Blocked {
		m.wake(g)
	}
}

func (g *G) topPanic() *panicRec {
	if len(g.panics) == 0 {
		return nil
	}
	return g.panics[len(g.panics)-1]
}

// runDeferred starts the deferred call d of frame fr. viaPanic is the panic being unwound (nil for a normal return).
// Returns true when the call completed synchronously (builtin / intrinsic).
func (m *Machine) runDeferred(g *G, fr *Frame, d deferred, viaPanic *panicRec) bool {
	switch f := d.fn.(type) {
	case *ssa.Builtin:
		m.builtin(g, fr, nil, f, d.args, d.inst.Call.Args)
		return true
	case *ssa.Function:
		if fn := m.lookupIntrinsic(f); fn != nil {
			fn(m, g, fr, nil, d.args)
			if g.state == Blocked {
				m.fail("unsupported", "blocking intrinsic in deferred position: "+f.String())
			}
			return true
		}
		if !isInterpreted(f) {
			m.fail("unsupported", "deferred call of "+f.String()+" (no intrinsic)")
		}
		m.pushFrame(g, f, nil, d.args, nil)
	case *Closure:
		if f == nil {
			m.throw("invalid memory address or nil pointer dereference (deferred nil func)")
		}
		m.pushFrame(g, f.Fn, f.Env, d.args, nil)
	default:
		m.fail("unsupported", fmt.Sprintf("deferred %T", d.fn))
	}
	nf := m.top(g)
	nf.isDeferred = true
	nf.deferParent = fr
	nf.viaPanic = viaPanic
	return false
}

// unwind performs one step of panic unwinding on g.
func (m *Machine) unwind(g *G) {
	fr := m.top(g)
	p := g.topPanic()
	if len(fr.defers) > 0 {
		d := fr.defers[len(fr.defers)-1]
		fr.defers = fr.defers[:len(fr.defers)-1]
		g.unwinding = false // the deferred call runs normally
		if m.runDeferred(g, fr, d, p) {
			// synchronous: recover() cannot have been called by a builtin/intrinsic
			g.unwinding = true
		}
		return
	}
	// no defers left: pop the frame
	g.frames = g.frames[:len(g.frames)-1]
	if fr.isDeferred && fr.viaPanic != nil && fr.viaPanic != p {
		// the newer panic p unwinds past a deferred call started by an older panic: the older one is aborted
		for i, q := range g.panics {
			if q == fr.viaPanic {
				g.panics = append(g.panics[:i:i], g.panics[i+1:]...)
				break
			}
		}
	}
	if len(g.frames) == 0 {
		panic(stopPath{&PathEnd{Kind: "panic", Msg: fmt.Sprintf("unrecovered panic in goroutine g%d (%s): %s", g.id, g.started, p.msg)}})
	}
}

func (m *Machine) top(g *G) *Frame { return g.frames[len(g.frames)-1] }

func (m *Machine) constVal(c *ssa.Const) Value {
	if c.Value == nil {
		return zero(c.Type())
	}
	t := c.Type().Underlying()
	if b, ok := t.(*types.Basic); ok {
		switch {
		case b.Info()&types.IsBoolean != 0:
			return constant.BoolVal(c.Value)
		case b.Info()&types.IsInteger != 0:
			if v, ok := constant.Int64Val(constant.ToInt(c.Value)); ok {
				return v
			}
			u, _ := constant.Uint64Val(constant.ToInt(c.Value))
			return int64(u)
		case b.Info()&types.IsString != 0:
			return constant.StringVal(c.Value)
		case b.Info()&types.IsFloat != 0:
			return c.Float64()
		}
	}
	if _, ok := t.(*types.Struct); ok { // struct{}{} zero consts
		return zero(c.Type())
	}
	panic(fmt.Sprintf("const %v : %v", c, c.Type()))
}

func (m *Machine) get(fr *Frame, v ssa.Value) Value {
	switch v := v.(type) {
	case *ssa.Const:
		return m.constVal(v)
	case *ssa.Global:
		return m.global(v)
	case *ssa.Function:
		return v
	case *ssa.Builtin:
		return v
	case *ssa.FreeVar:
		for i, fv := range fr.fn.FreeVars {
			if fv == v {
				return fr.env[i]
			}
		}
		panic("freevar not found")
	}
	r, ok := fr.locals[v]
	if !ok {
		panic(fmt.Sprintf("no local %s in %s", v.Name(), fr.fn))
	}
	return r
}

func (m *Machine) global(v *ssa.Global) Ptr {
	p, ok := m.globals[v]
	if !ok {
		p = newCell(zero(v.Type().(*types.Pointer).Elem()))
		// sentinel errors of packages whose initialisers the executor does not run
		if v.Pkg != nil && v.Pkg.Pkg != nil {
			switch v.Pkg.Pkg.Path() + "." + v.Name() {
			case "context.Canceled":
				*p = m.errorValue("context canceled")
			case "context.DeadlineExceeded":
				*p = m.errorValue("context deadline exceeded")
			case "io.EOF":
				*p = m.errorValue("EOF")
			case "io.ErrUnexpectedEOF":
				*p = m.errorValue("unexpected EOF")
			}
		}
		m.globals[v] = p
	}
	return p
}

var interpretedPrefixes = []string{
	"github.com/buildbuildio/pebbles",
	"github.com/samber/lo",
	"github.com/vektah/gqlparser/v2/ast",
	"github.com/vektah/gqlparser/v2/gqlerror",
	"github.com/vektah/gqlparser/v2/formatter",
}

// pure standard-library packages whose Go bodies may be interpreted when no intrinsic exists
var interpretedStd = map[string]bool{
	"errors": true, "sort": true, "strings": true, "strconv": true, "unicode": true, "unicode/utf8": true,
	"bytes": true, "math": true, "math/bits": true, "slices": true, "maps": true, "cmp": true, "path": true,
	"golang.org/x/exp/constraints": true, "golang.org/x/exp/slices": true, "golang.org/x/exp/maps": true,
	"internal/stringslite": true, "internal/itoa": true,
}

func fnPkgPath(fn *ssa.Function) string {
	f := fn
	for f.Parent() != nil {
		f = f.Parent()
	}
	pkg := f.Pkg
	if pkg == nil && f.Origin() != nil {
		pkg = f.Origin().Pkg
	}
	if pkg == nil {
		return ""
	}
	return pkg.Pkg.Path()
}

func isInterpreted(fn *ssa.Function) bool {
	if len(fn.Blocks) == 0 {
		return false
	}
	p := fnPkgPath(fn)
	if p == "" {
		// wrappers/bound methods/thunks: interpret
		return true
	}
	for _, pre := range interpretedPrefixes {
		if strings.HasPrefix(p, pre) {
			return true
		}
	}
	return interpretedStd[p]
}

func isRepoInit(f *ssa.Function) bool {
	if f.Pkg == nil {
		return false
	}
	p := f.Pkg.Pkg.Path()
	if strings.HasSuffix(p, "/playground") {
		// its init parses an html/template and materialises a 19 kB page; no kernel reads it
		return false
	}
	return strings.HasPrefix(p, "github.com/buildbuildio/pebbles") || strings.HasPrefix(p, "github.com/vektah/gqlparser/v2/ast") || strings.HasPrefix(p, "github.com/vektah/gqlparser/v2/gqlerror")
}

func (m *Machine) pushFrame(g *G, fn *ssa.Function, env []Value, args []Value, call ssa.Instruction) {
	if len(fn.Blocks) == 0 {
		m.fail("unsupported", "call of body-less function "+fn.String())
	}
	if len(g.frames) > 2000 {
		m.fail("unwind", "call depth > 2000 in "+fn.String())
	}
	fr := &Frame{fn: fn, locals: make(map[ssa.Value]Value, 16), env: env, call: call}
	if len(args) != len(fn.Params) {
		m.fail("unsupported", fmt.Sprintf("arity mismatch calling %s: %d args for %d params", fn, len(args), len(fn.Params)))
	}
	for i, p := range fn.Params {
		fr.locals[p] = args[i]
	}
	fr.block = fn.Blocks[0]
	g.frames = append(g.frames, fr)
}

// setResult stores the value of a finished call/op in frame and advances pc.
// in == nil: the operation ran in deferred position (nothing to store, pc untouched).
func (m *Machine) setResult(fr *Frame, in ssa.Instruction, v Value) {
	if in == nil {
		return
	}
	if _, isRD := in.(*ssa.RunDefers); isRD {
		return
	}
	if val, ok := in.(ssa.Value); ok {
		fr.locals[val] = v
	}
	fr.pc++
}

// call performs a call from frame fr at instruction in
func (m *Machine) call(g *G, fr *Frame, in ssa.Instruction, fnv Value, args []Value, argExprs []ssa.Value) {
	switch f := fnv.(type) {
	case *ssa.Builtin:
		m.setResult(fr, in, m.builtin(g, fr, in, f, args, argExprs))
	case *ssa.Function:
		if f == nil {
			m.throw("invalid memory address or nil pointer dereference (call of nil func)")
		}
		if fn := m.lookupIntrinsic(f); fn != nil {
			fn(m, g, fr, in, args)
			return
		}
		if f.Name() == "init" && f.Signature.Recv() == nil && f.Parent() == nil && !isRepoInit(f) {
			m.setResult(fr, in, nil)
			return
		}
		if !isInterpreted(f) {
			m.fail("unsupported", "no intrinsic for "+f.String()+" at "+m.pos(in))
		}
		m.pushFrame(g, f, nil, args, in)
	case *Closure:
		if f == nil {
			m.throw("invalid memory address or nil pointer dereference (call of nil func)")
		}
		m.pushFrame(g, f.Fn, f.Env, args, in)
	default:
		m.fail("unsupported", fmt.Sprintf("call of %T", fnv))
	}
}

func (m *Machine) resolveCall(fr *Frame, cc *ssa.CallCommon) (Value, []Value) {
	var args []Value
	var fnv Value
	if cc.IsInvoke() {
		recv := m.get(fr, cc.Value).(Iface)
		if recv.T == nil {
			m.throw("invalid memory address or nil pointer dereference (method " + cc.Method.Name() + " on nil interface)")
		}
		fnv = m.method(recv.T, cc.Method)
		args = append(args, recv.V)
	} else {
		fnv = m.get(fr, cc.Value)
	}
	for _, a := range cc.Args {
		args = append(args, copyVal(m.get(fr, a)))
	}
	return fnv, args
}

func (m *Machine) method(t types.Type, meth *types.Func) *ssa.Function {
	ms := m.prog.MethodSets.MethodSet(t)
	sel := ms.Lookup(meth.Pkg(), meth.Name())
	if sel == nil {
		m.fail("unsupported", "method not found "+meth.Name()+" on "+t.String())
	}
	fn := m.prog.MethodValue(sel)
	if fn == nil {
		m.fail("unsupported", "abstract method "+meth.Name()+" on "+t.String())
	}
	return fn
}

func (m *Machine) isVisible(fr *Frame, in ssa.Instruction) bool {
	switch in := in.(type) {
	case *ssa.Send, *ssa.Select:
		return true
	case *ssa.UnOp:
		return in.Op == token.ARROW
	case *ssa.Call:
		if b, ok := in.Call.Value.(*ssa.Builtin); ok && b.Name() == "close" {
			return true
		}
		if f := in.Call.StaticCallee(); f != nil && visibleIntrinsics[intrinsicName(f)] {
			return true
		}
	case *ssa.RunDefers:
		for _, d := range fr.defers {
			switch f := d.fn.(type) {
			case *ssa.Builtin:
				if f.Name() == "close" {
					return true
				}
			case *ssa.Function:
				if visibleIntrinsics[intrinsicName(f)] {
					return true
				}
			}
		}
	}
	return false
}

// step executes one instruction of g. returns false if g stopped in front of a visible op (yield).
func (m *Machine) step(g *G) bool {
	fr := m.top(g)
	if fr.recovering {
		m.stepRecovering(g, fr)
		return true
	}
	in := fr.block.Instrs[fr.pc]
	if !g.atVisible && m.isVisible(fr, in) {
		g.atVisible = true
		return false
	}
	g.atVisible = false
	m.steps++
	if m.steps > m.ex.ex.cfg.StepBudget {
		m.fail("unwind", fmt.Sprintf("step budget %d exceeded at %s", m.ex.ex.cfg.StepBudget, m.pos(in)))
	}
	m.cur, m.curIn = g, in
	switch in := in.(type) {
	case *ssa.Alloc:
		m.setResult(fr, in, newCell(zero(in.Type().(*types.Pointer).Elem())))
	case *ssa.Store:
		p := m.get(fr, in.Addr).(Ptr)
		if p == nil {
			m.throw("invalid memory address or nil pointer dereference (store) at " + m.pos(in))
		}
		m.raceWrite(g, p, in)
		m.touch(p)
		assign(p, m.get(fr, in.Val))
		fr.pc++
	case *ssa.UnOp:
		m.unop(g, fr, in)
	case *ssa.BinOp:
		m.setResult(fr, in, m.binop(in.Op, m.get(fr, in.X), m.get(fr, in.Y), in.X.Type(), in))
	case *ssa.Phi:
		for i, pred := range fr.block.Preds {
			if pred == fr.prev {
				m.setResult(fr, in, m.get(fr, in.Edges[i]))
				return true
			}
		}
		panic("phi: no pred")
	case *ssa.Jump:
		m.jump(fr, fr.block.Succs[0])
	case *ssa.If:
		c := m.get(fr, in.Cond)
		var b bool
		switch c := c.(type) {
		case bool:
			b = c
		case *Sym:
			b = m.ex.branch(m, c.E)
		default:
			panic(fmt.Sprintf("if on %T", c))
		}
		if b {
			m.jump(fr, fr.block.Succs[0])
		} else {
			m.jump(fr, fr.block.Succs[1])
		}
	case *ssa.Return:
		var res Value
		switch len(in.Results) {
		case 0:
		case 1:
			res = copyVal(m.get(fr, in.Results[0]))
		default:
			t := make(Tuple, len(in.Results))
			for i, r := range in.Results {
				t[i] = copyVal(m.get(fr, r))
			}
			res = t
		}
		m.ret(g, res)
	case *ssa.Call:
		fnv, args := m.resolveCall(fr, &in.Call)
		m.call(g, fr, in, fnv, args, in.Call.Args)
	case *ssa.Go:
		fnv, args := m.resolveCall(fr, &in.Call)
		ng := &G{id: len(m.gs), started: m.pos(in)}
		m.gs = append(m.gs, ng)
		m.raceFork(g, ng)
		switch f := fnv.(type) {
		case *ssa.Function:
			if fn := m.lookupIntrinsic(f); fn != nil {
				m.fail("unsupported", "go of intrinsic "+f.String())
			}
			m.pushFrame(ng, f, nil, args, nil)
		case *Closure:
			if f == nil {
				m.fail("fatal", "go of nil func value")
			}
			m.pushFrame(ng, f.Fn, f.Env, args, nil)
		default:
			m.fail("unsupported", "go of builtin")
		}
		fr.pc++
	case *ssa.Defer:
		fnv, args := m.resolveCall(fr, &in.Call)
		fr.defers = append(fr.defers, deferred{fnv, args, in})
		fr.pc++
	case *ssa.RunDefers:
		if len(fr.defers) == 0 {
			fr.pc++
			return true
		}
		d := fr.defers[len(fr.defers)-1]
		fr.defers = fr.defers[:len(fr.defers)-1]
		m.runDeferred(g, fr, d, nil)
		// pc not advanced: RunDefers re-executes until the list is empty
	case *ssa.Extract:
		m.setResult(fr, in, m.get(fr, in.Tuple).(Tuple)[in.Index])
	case *ssa.MakeClosure:
		env := make([]Value, len(in.Bindings))
		for i, b := range in.Bindings {
			env[i] = m.get(fr, b)
		}
		m.setResult(fr, in, &Closure{in.Fn.(*ssa.Function), env})
	case *ssa.MakeChan:
		sz := m.concInt(m.get(fr, in.Size), "chan size")
		m.nchan++
		m.setResult(fr, in, &Chan{ID: m.nchan, Cap: int(sz), Elem: in.Type().Underlying().(*types.Chan).Elem()})
	case *ssa.MakeSlice:
		n := m.concInt(m.get(fr, in.Len), "make len")
		c := m.concInt(m.get(fr, in.Cap), "make cap")
		if n < 0 || c < n {
			m.throw("makeslice: len out of range at " + m.pos(in))
		}
		if c > 1<<20 {
			m.fail("unwind", "makeslice larger than 2^20 at "+m.pos(in))
		}
		el := in.Type().Underlying().(*types.Slice).Elem()
		a := make([]Value, n, c)
		full := a[:c]
		for i := range full {
			full[i] = zero(el)
		}
		m.setResult(fr, in, &SliceV{A: a})
	case *ssa.MakeMap:
		m.setResult(fr, in, &MapV{})
	case *ssa.MapUpdate:
		mp := m.get(fr, in.Map).(*MapV)
		if mp == nil {
			m.throw("assignment to entry in nil map at " + m.pos(in))
		}
		m.raceWriteObj(g, mp, in)
		m.touchObj(mp)
		mp.set(m, m.get(fr, in.Key), copyVal(m.get(fr, in.Value)))
		fr.pc++
	case *ssa.MakeInterface:
		m.setResult(fr, in, Iface{in.X.Type(), copyVal(m.get(fr, in.X))})
	case *ssa.ChangeInterface:
		m.setResult(fr, in, m.get(fr, in.X))
	case *ssa.ChangeType:
		m.setResult(fr, in, m.get(fr, in.X))
	case *ssa.Convert:
		m.setResult(fr, in, m.convert(m.get(fr, in.X), in.X.Type(), in.Type(), in))
	case *ssa.MultiConvert:
		m.setResult(fr, in, m.convert(m.get(fr, in.X), in.X.Type(), in.Type(), in))
	case *ssa.IndexAddr:
		x := m.get(fr, in.X)
		switch x := x.(type) {
		case *SliceV:
			idx := m.indexSplit(m.get(fr, in.Index), int64(len(x.A)), in)
			m.setResult(fr, in, Ptr(&x.A[idx]))
		case Ptr: // pointer to array
			if x == nil {
				m.throw("invalid memory address or nil pointer dereference (array index) at " + m.pos(in))
			}
			arr := (*x).(Array)
			idx := m.indexSplit(m.get(fr, in.Index), int64(len(arr)), in)
			m.setResult(fr, in, Ptr(&arr[idx]))
		default:
			m.fail("unsupported", fmt.Sprintf("IndexAddr on %T", x))
		}
	case *ssa.FieldAddr:
		p := m.get(fr, in.X).(Ptr)
		if p == nil {
			m.throw("invalid memory address or nil pointer dereference (field " + fieldName(in.X.Type(), in.Field) + ") at " + m.pos(in))
		}
		s := (*p).(Struct)
		m.setResult(fr, in, Ptr(&s[in.Field]))
	case *ssa.Field:
		s := m.get(fr, in.X).(Struct)
		m.setResult(fr, in, copyVal(s[in.Field]))
	case *ssa.Slice:
		m.sliceOp(fr, in)
	case *ssa.TypeAssert:
		m.typeAssert(fr, in)
	case *ssa.Send:
		ch, _ := m.get(fr, in.Chan).(*Chan)
		m.chanSend(g, fr, in, ch, copyVal(m.get(fr, in.X)))
	case *ssa.Select:
		m.selectOp(g, fr, in)
	case *ssa.Panic:
		v := m.get(fr, in.X)
		panic(goPanicSig{val: v, msg: "panic: " + show(v) + " at " + m.pos(in)})
	case *ssa.Lookup:
		x := m.get(fr, in.X)
		k := m.get(fr, in.Index)
		if s, isStr := x.(string); isStr { // string indexing
			idx := m.indexSplit(k, int64(len(s)), in)
			m.setResult(fr, in, int64(s[idx]))
			return true
		}
		mp, ok := x.(*MapV)
		if !ok {
			m.fail("unsupported", fmt.Sprintf("Lookup on %T", x))
		}
		var res Value = zero(in.X.Type().Underlying().(*types.Map).Elem())
		found := false
		if mp != nil {
			m.raceReadObj(g, mp, in)
			if i := mp.find(m, k); i >= 0 {
				res, found = mp.Vals[i], true
			}
		}
		if in.CommaOk {
			m.setResult(fr, in, Tuple{copyVal(res), found})
		} else {
			m.setResult(fr, in, copyVal(res))
		}
	case *ssa.Range:
		m.rangeOp(fr, in)
	case *ssa.Next:
		m.nextOp(g, fr, in)
	case *ssa.Index:
		x := m.get(fr, in.X)
		switch x := x.(type) {
		case Array:
			idx := m.indexSplit(m.get(fr, in.Index), int64(len(x)), in)
			m.setResult(fr, in, copyVal(x[idx]))
		case string:
			idx := m.indexSplit(m.get(fr, in.Index), int64(len(x)), in)
			m.setResult(fr, in, int64(x[idx]))
		default:
			m.fail("unsupported", fmt.Sprintf("Index on %T", x))
		}
	case *ssa.SliceToArrayPointer:
		x := m.get(fr, in.X).(*SliceV)
		n := in.Type().(*types.Pointer).Elem().Underlying().(*types.Array).Len()
		if int64(len(x.A)) < n {
			m.throw("cannot convert slice to array pointer: length mismatch")
		}
		m.setResult(fr, in, newCell(Array(x.A[:n:n])))
	case *ssa.DebugRef:
		fr.pc++
	default:
		m.fail("unsupported", fmt.Sprintf("instr %T at %s", in, m.pos(in)))
	}
	return true
}

// stepRecovering: after a recovered panic the frame runs its remaining deferred calls and then
// resumes at fn.Recover (or returns zero values).
func (m *Machine) stepRecovering(g *G, fr *Frame) {
	m.steps++
	if len(fr.defers) > 0 {
		d := fr.defers[len(fr.defers)-1]
		fr.defers = fr.defers[:len(fr.defers)-1]
		m.runDeferred(g, fr, d, nil)
		return
	}
	fr.recovering = false
	if fr.fn.Recover != nil {
		m.jump(fr, fr.fn.Recover)
		return
	}
	var res Value
	rs := fr.fn.Signature.Results()
	if rs.Len() == 1 {
		res = zero(rs.At(0).Type())
	} else if rs.Len() > 1 {
		res = zero(rs)
	}
	m.ret(g, res)
}

func fieldName(t types.Type, i int) string {
	if p, ok := t.Underlying().(*types.Pointer); ok {
		if s, ok := p.Elem().Underlying().(*types.Struct); ok && i < s.NumFields() {
			return s.Field(i).Name()
		}
	}
	return fmt.Sprint(i)
}

func (m *Machine) pos(in ssa.Instruction) string {
	if in == nil {
		return "?"
	}
	p := m.prog.Fset.Position(in.Pos())
	name := "?"
	if in.Parent() != nil {
		name = in.Parent().Name()
	}
	f := p.Filename
	f = strings.TrimPrefix(f, repoRoot+"/")
	return fmt.Sprintf("%s:%d (%s)", f, p.Line, name)
}

func (m *Machine) jump(fr *Frame, to *ssa.BasicBlock) {
	if to.Index <= fr.block.Index { // back edge: unwinding assertion
		if m.loopCnt == nil {
			m.loopCnt = map[*ssa.BasicBlock]int{}
		}
		m.loopCnt[to]++
		if m.loopCnt[to] > m.ex.ex.cfg.Unwind {
			m.fail("unwind", fmt.Sprintf("loop at %s:%s iterated more than %d times on one path", fr.fn.Name(), to.String(), m.ex.ex.cfg.Unwind))
		}
	}
	fr.prev = fr.block
	fr.block = to
	fr.pc = 0
}

func (m *Machine) ret(g *G, res Value) {
	fr := m.top(g)
	g.frames = g.frames[:len(g.frames)-1]
	if fr.onReturn != nil {
		res = fr.onReturn(res)
	}
	if len(g.frames) == 0 {
		g.state = Done
		return
	}
	caller := m.top(g)
	if fr.isDeferred {
		// a deferred call finished
		if p := fr.viaPanic; p != nil {
			if p.recovered {
				// remove p; the deferring frame completes its defers and returns normally
				for i, q := range g.panics {
					if q == p {
						g.panics = append(g.panics[:i:i], g.panics[i+1:]...)
						break
					}
				}
				caller.recovering = true
			} else {
				g.unwinding = true
			}
		}
		return
	}
	if fr.call != nil {
		m.setResult(caller, fr.call, res)
	}
}

func (m *Machine) concInt(v Value, what string) int64 {
	switch v := v.(type) {
	case int64:
		return v
	case *Sym:
		return m.ex.concretize(m, v, what)
	}
	panic(fmt.Sprintf("concInt %T (%s)", v, what))
}

func (m *Machine) eqConcrete(a, b Value) bool {
	switch a := a.(type) {
	case nil:
		return b == nil
	case int64, string, bool, float64:
		return a == b
	case Ptr:
		bb, ok := b.(Ptr)
		return ok && a == bb
	case Iface:
		bb, ok := b.(Iface)
		if !ok {
			return false
		}
		if a.T == nil || bb.T == nil {
			return a.T == nil && bb.T == nil
		}
		if !types.Identical(a.T, bb.T) {
			return false
		}
		return m.truth(m.eqVal(a.V, bb.V))
	case *Chan:
		bb, ok := b.(*Chan)
		return ok && a == bb
	case Struct:
		bb, ok := b.(Struct)
		if !ok || len(a) != len(bb) {
			return false
		}
		for i := range a {
			if !m.truth(m.eqVal(a[i], bb[i])) {
				return false
			}
		}
		return true
	case Array:
		bb, ok := b.(Array)
		if !ok || len(a) != len(bb) {
			return false
		}
		for i := range a {
			if !m.truth(m.eqVal(a[i], bb[i])) {
				return false
			}
		}
		return true
	case *Opaque:
		bb, ok := b.(*Opaque)
		return ok && a == bb
	case *MapV, *SliceV, *Closure:
		m.throw("comparing uncomparable type (map/slice/func in interface)")
	}
	m.fail("unsupported", fmt.Sprintf("eq on %T", a))
	return false
}

func (m *Machine) unop(g *G, fr *Frame, in *ssa.UnOp) {
	x := m.get(fr, in.X)
	switch in.Op {
	case token.MUL:
		p := x.(Ptr)
		if p == nil {
			m.throw("invalid memory address or nil pointer dereference at " + m.pos(in))
		}
		m.raceRead(g, p, in)
		m.setResult(fr, in, copyVal(*p))
	case token.NOT:
		m.setResult(fr, in, mkNot(x))
	case token.SUB:
		switch x := x.(type) {
		case int64:
			m.setResult(fr, in, -x)
		case float64:
			m.setResult(fr, in, -x)
		case *Sym:
			m.setResult(fr, in, m.checkWrap(mkArith("-", int64(0), x), in.Type(), in))
		}
	case token.XOR:
		m.setResult(fr, in, m.wrapInt(^x.(int64), in.Type()))
	case token.ARROW:
		ch, _ := x.(*Chan)
		m.chanRecv(g, fr, in, ch, in.CommaOk)
	default:
		m.fail("unsupported", "unop "+in.Op.String())
	}
}

func intRange(t types.Type) (lo, hi int64, ok bool) {
	b, isB := t.Underlying().(*types.Basic)
	if !isB {
		return 0, 0, false
	}
	switch b.Kind() {
	case types.Int8:
		return math.MinInt8, math.MaxInt8, true
	case types.Int16:
		return math.MinInt16, math.MaxInt16, true
	case types.Int32:
		return math.MinInt32, math.MaxInt32, true
	case types.Int, types.Int64, types.UntypedInt:
		return satLo, satHi, true // conservative (saturation range)
	case types.Uint8:
		return 0, math.MaxUint8, true
	case types.Uint16:
		return 0, math.MaxUint16, true
	case types.Uint32:
		return 0, math.MaxUint32, true
	case types.Uint, types.Uint64, types.Uintptr:
		return 0, satHi, true
	}
	return 0, 0, false
}

// checkWrap: the Int encoding is only sound when no machine wrap-around can happen.
func (m *Machine) checkWrap(s *Sym, t types.Type, in ssa.Instruction) *Sym {
	lo, hi, ok := intRange(t)
	if !ok {
		return s
	}
	if s.Lo >= lo && s.Hi <= hi {
		return s
	}
	// interval too coarse: ask the solver
	q := fmt.Sprintf("(or (< %s %s) (> %s %s))", s.E, smtInt(lo), s.E, smtInt(hi))
	if r := m.ex.check(m, q); r != "unsat" {
		m.fail("inconclusive", "WRAP-REACHABLE: integer overflow of "+t.String()+" feasible at "+m.pos(in))
	}
	m.obls++
	if s.Lo < lo {
		s.Lo = lo
	}
	if s.Hi > hi {
		s.Hi = hi
	}
	return s
}

func (m *Machine) wrapInt(v int64, t types.Type) int64 {
	b, ok := t.Underlying().(*types.Basic)
	if !ok {
		return v
	}
	switch b.Kind() {
	case types.Int8:
		return int64(int8(v))
	case types.Int16:
		return int64(int16(v))
	case types.Int32:
		return int64(int32(v))
	case types.Uint8:
		return int64(uint8(v))
	case types.Uint16:
		return int64(uint16(v))
	case types.Uint32:
		return int64(uint32(v))
	}
	return v
}

func isUnsigned(t types.Type) bool {
	b, ok := t.Underlying().(*types.Basic)
	return ok && b.Info()&types.IsUnsigned != 0
}

func (m *Machine) binop(op token.Token, x, y Value, t types.Type, in ssa.Instruction) Value {
	if isSymStr(x) || isSymStr(y) {
		switch op {
		case token.EQL:
			return m.eqVal(x, y)
		case token.NEQ:
			return mkNot(m.eqVal(x, y))
		case token.ADD:
			return normCat(append(append([]Value{}, pieces(x)...), pieces(y)...))
		}
		m.fail("unsupported", "string op "+op.String()+" on symbolic string at "+m.pos(in))
	}
	_, xs := x.(*Sym)
	_, ys := y.(*Sym)
	if xs || ys {
		b, isBasic := t.Underlying().(*types.Basic)
		if isBasic && b.Info()&types.IsBoolean != 0 {
			switch op {
			case token.EQL:
				return mkBoolEq(x, y)
			case token.NEQ:
				return mkNot(mkBoolEq(x, y))
			case token.AND:
				return mkAnd(x, y)
			case token.OR:
				return mkOr(x, y)
			}
		}
		if isBasic && b.Info()&types.IsInteger != 0 {
			switch op {
			case token.ADD:
				return m.checkWrap(mkArith("+", x, y), t, in)
			case token.SUB:
				return m.checkWrap(mkArith("-", x, y), t, in)
			case token.MUL:
				return m.checkWrap(mkArith("*", x, y), t, in)
			case token.QUO, token.REM:
				// division by zero obligation
				z := mkCmp("=", y, int64(0))
				if m.truth(z) {
					m.throw("integer divide by zero at " + m.pos(in))
				}
				return mkQuoRem(op == token.QUO, x, y)
			case token.EQL:
				return mkCmp("=", x, y)
			case token.NEQ:
				return mkNot(mkCmp("=", x, y))
			case token.LSS:
				return mkCmp("<", x, y)
			case token.LEQ:
				return mkCmp("<=", x, y)
			case token.GTR:
				return mkCmp(">", x, y)
			case token.GEQ:
				return mkCmp(">=", x, y)
			}
		}
		if isBasic && b.Info()&types.IsFloat != 0 {
			// JSON numbers that carry a symbolic integer
			fx, fok := x.(float64)
			fy, fok2 := y.(float64)
			if fok && fx == math.Trunc(fx) {
				x = int64(fx)
			} else if fok {
				m.fail("unsupported", "symbolic number compared with a non-integral float")
			}
			if fok2 && fy == math.Trunc(fy) {
				y = int64(fy)
			} else if fok2 {
				m.fail("unsupported", "symbolic number compared with a non-integral float")
			}
			switch op {
			case token.EQL:
				return mkCmp("=", x, y)
			case token.NEQ:
				return mkNot(mkCmp("=", x, y))
			case token.LSS:
				return mkCmp("<", x, y)
			case token.GTR:
				return mkCmp(">", x, y)
			}
		}
		if isBasic && b.Info()&types.IsString == 0 {
			m.fail("unsupported", "symbolic binop "+op.String()+" on "+t.String()+" at "+m.pos(in))
		}
		// interface / other comparisons with symbolic payloads
		switch op {
		case token.EQL:
			return m.eqVal(x, y)
		case token.NEQ:
			return mkNot(m.eqVal(x, y))
		}
		m.fail("unsupported", "symbolic binop "+op.String()+" on "+t.String()+" at "+m.pos(in))
	}
	switch x := x.(type) {
	case int64:
		if _, isLeaf := y.(*JSONLeaf); isLeaf {
			// a byte compared with a symbolic JSON leaf: leaves contain no structural characters (token assumption)
			switch op {
			case token.EQL:
				return false
			case token.NEQ:
				return true
			}
		}
		y, ok := y.(int64)
		if !ok {
			m.fail("unsupported", fmt.Sprintf("binop %s int with %T", op, y))
		}
		uns := isUnsigned(t)
		switch op {
		case token.ADD:
			return m.wrapInt(x+y, t)
		case token.SUB:
			return m.wrapInt(x-y, t)
		case token.MUL:
			return m.wrapInt(x*y, t)
		case token.QUO:
			if y == 0 {
				m.throw("integer divide by zero at " + m.pos(in))
			}
			if uns {
				return int64(uint64(x) / uint64(y))
			}
			return m.wrapInt(x/y, t)
		case token.REM:
			if y == 0 {
				m.throw("integer divide by zero at " + m.pos(in))
			}
			if uns {
				return int64(uint64(x) % uint64(y))
			}
			return x % y
		case token.AND:
			return x & y
		case token.OR:
			return x | y
		case token.XOR:
			return m.wrapInt(x^y, t)
		case token.AND_NOT:
			return x &^ y
		case token.SHL:
			if y < 0 {
				m.throw("negative shift amount")
			}
			if y >= 64 {
				return int64(0)
			}
			return m.wrapInt(x<<uint(y), t)
		case token.SHR:
			if y < 0 {
				m.throw("negative shift amount")
			}
			if uns {
				if y >= 64 {
					return int64(0)
				}
				return int64(uint64(x) >> uint(y))
			}
			if y >= 64 {
				y = 63
			}
			return x >> uint(y)
		case token.EQL:
			return x == y
		case token.NEQ:
			return x != y
		case token.LSS:
			if uns {
				return uint64(x) < uint64(y)
			}
			return x < y
		case token.LEQ:
			if uns {
				return uint64(x) <= uint64(y)
			}
			return x <= y
		case token.GTR:
			if uns {
				return uint64(x) > uint64(y)
			}
			return x > y
		case token.GEQ:
			if uns {
				return uint64(x) >= uint64(y)
			}
			return x >= y
		}
	case float64:
		y := y.(float64)
		switch op {
		case token.ADD:
			return x + y
		case token.SUB:
			return x - y
		case token.MUL:
			return x * y
		case token.QUO:
			return x / y
		case token.EQL:
			return x == y
		case token.NEQ:
			return x != y
		case token.LSS:
			return x < y
		case token.LEQ:
			return x <= y
		case token.GTR:
			return x > y
		case token.GEQ:
			return x >= y
		}
	case bool:
		y := y.(bool)
		switch op {
		case token.EQL:
			return x == y
		case token.NEQ:
			return x != y
		case token.AND:
			return x && y
		case token.OR:
			return x || y
		}
	case string:
		y := y.(string)
		switch op {
		case token.ADD:
			return x + y
		case token.EQL:
			return x == y
		case token.NEQ:
			return x != y
		case token.LSS:
			return x < y
		case token.LEQ:
			return x <= y
		case token.GTR:
			return x > y
		case token.GEQ:
			return x >= y
		}
	case *JSONLeaf:
		switch op {
		case token.EQL:
			return false
		case token.NEQ:
			return true
		}
	case Iface, Ptr, *Chan, Struct, Array, *Opaque:
		switch op {
		case token.EQL:
			return m.eqVal(x, y)
		case token.NEQ:
			return mkNot(m.eqVal(x, y))
		}
	case *SliceV:
		// comparison with nil only
		yy := y.(*SliceV)
		isNil := (x == nil || x.Nil) && (yy == nil || yy.Nil)
		if op == token.EQL {
			return isNil
		}
		return !isNil
	case *MapV:
		yy := y.(*MapV)
		if op == token.EQL {
			return x == yy
		}
		return x != yy
	case *Closure:
		yy, _ := y.(*Closure)
		if op == token.EQL {
			return x == yy
		}
		return x != yy
	case *ssa.Function:
		// func value compared with nil
		isNil := x == nil
		if c, ok := y.(*Closure); ok && c == nil {
			if op == token.EQL {
				return isNil
			}
			return !isNil
		}
	case nil:
		if op == token.EQL {
			return y == nil
		}
		return y != nil
	}
	m.fail("unsupported", fmt.Sprintf("binop %s on %T,%T at %s", op, x, y, m.pos(in)))
	return nil
}

func (m *Machine) convert(v Value, from, to types.Type, in ssa.Instruction) Value {
	fb, _ := from.Underlying().(*types.Basic)
	tb, _ := to.Underlying().(*types.Basic)
	if fb != nil && tb != nil {
		fi, ti := fb.Info(), tb.Info()
		switch {
		case fi&types.IsInteger != 0 && ti&types.IsInteger != 0:
			if s, ok := v.(*Sym); ok {
				lo, hi, ok := intRange(to)
				if ok && (s.Lo < lo || s.Hi > hi) {
					return m.checkWrap(s, to, in)
				}
				return s
			}
			return m.wrapInt(v.(int64), to)
		case fi&types.IsString != 0 && ti&types.IsString != 0:
			return v
		case fi&types.IsInteger != 0 && ti&types.IsFloat != 0:
			if _, ok := v.(*Sym); ok {
				m.fail("unsupported", "symbolic int to float at "+m.pos(in))
			}
			if isUnsigned(from) {
				return float64(uint64(v.(int64)))
			}
			return float64(v.(int64))
		case fi&types.IsFloat != 0 && ti&types.IsInteger != 0:
			return m.wrapInt(int64(v.(float64)), to)
		case fi&types.IsFloat != 0 && ti&types.IsFloat != 0:
			if tb.Kind() == types.Float32 {
				return float64(float32(v.(float64)))
			}
			return v
		case fi&types.IsInteger != 0 && ti&types.IsString != 0:
			if _, ok := v.(*Sym); ok {
				m.fail("unsupported", "string(symbolic rune) at "+m.pos(in))
			}
			return string(rune(v.(int64)))
		case fb.Kind() == types.UnsafePointer || tb.Kind() == types.UnsafePointer:
			return v
		}
	}
	if fb != nil && fb.Info()&types.IsString != 0 {
		if sl, ok := to.Underlying().(*types.Slice); ok {
			if eb, ok := sl.Elem().Underlying().(*types.Basic); ok {
				s, isConc := v.(string)
				if !isConc {
					// keep symbolic strings opaque inside a one-element "byte slice"
					return &SliceV{A: []Value{&StrBlob{v}}}
				}
				switch eb.Kind() {
				case types.Byte:
					return bytesVal([]byte(s))
				case types.Rune:
					rs := []rune(s)
					a := make([]Value, len(rs))
					for i, r := range rs {
						a[i] = int64(r)
					}
					return &SliceV{A: a}
				}
			}
		}
	}
	if tb != nil && tb.Info()&types.IsString != 0 {
		if sl, ok := from.Underlying().(*types.Slice); ok {
			if eb, ok := sl.Elem().Underlying().(*types.Basic); ok {
				sv := v.(*SliceV)
				if len(sv.A) == 1 {
					if b, ok := sv.A[0].(*StrBlob); ok {
						return b.S
					}
					if j, ok := sv.A[0].(*JSONBlob); ok {
						return m.jsonText(j)
					}
				}
				switch eb.Kind() {
				case types.Byte:
					return string(m.bytesOf(v))
				case types.Rune:
					rs := make([]rune, len(sv.A))
					for i, x := range sv.A {
						rs[i] = rune(x.(int64))
					}
					return string(rs)
				}
			}
		}
	}
	// pointer / named-type conversions that do not change representation
	switch to.Underlying().(type) {
	case *types.Pointer, *types.Slice, *types.Map, *types.Struct, *types.Signature, *types.Chan:
		return v
	}
	m.fail("unsupported", "convert "+from.String()+" -> "+to.String()+" at "+m.pos(in))
	return nil
}

func (m *Machine) sliceOp(fr *Frame, in *ssa.Slice) {
	x := m.get(fr, in.X)
	if str, isStr := x.(string); isStr {
		lo, hi := int64(0), int64(len(str))
		if in.Low != nil {
			lo = m.concInt(m.get(fr, in.Low), "slice lo")
		}
		if in.High != nil {
			hi = m.concInt(m.get(fr, in.High), "slice hi")
		}
		if lo < 0 || hi < lo || hi > int64(len(str)) {
			m.throw(fmt.Sprintf("slice bounds out of range [%d:%d] with length %d at %s", lo, hi, len(str), m.pos(in)))
		}
		m.setResult(fr, in, str[lo:hi])
		return
	}
	if isSymStr(x) {
		m.fail("unsupported", "slicing a symbolic string at "+m.pos(in))
	}
	s, ok := x.(*SliceV)
	if p, isPtr := x.(Ptr); isPtr {
		if p == nil {
			m.throw("invalid memory address or nil pointer dereference (slice of nil array pointer)")
		}
		arr := (*p).(Array)
		s, ok = &SliceV{A: []Value(arr)}, true
	}
	if !ok {
		m.fail("unsupported", fmt.Sprintf("slice of %T", x))
	}
	L, C := int64(len(s.A)), int64(cap(s.A))
	var lov, hiv, maxv Value = int64(0), L, C
	if in.Low != nil {
		lov = m.get(fr, in.Low)
	}
	if in.High != nil {
		hiv = m.get(fr, in.High)
	}
	if in.Max != nil {
		maxv = m.get(fr, in.Max)
	}
	// bounds obligation (symbolic): 0 <= lo <= hi <= max <= cap
	okc := mkAnd(mkAnd(mkCmp("<=", int64(0), lov), mkCmp("<=", lov, hiv)), mkAnd(mkCmp("<=", hiv, maxv), mkCmp("<=", maxv, C)))
	if !m.truth(okc) {
		m.throw(fmt.Sprintf("slice bounds out of range [%s:%s:%s] with capacity %d at %s", show(lov), show(hiv), show(maxv), C, m.pos(in)))
	}
	lo := m.concInt(lov, "slice lo")
	hi := m.concInt(hiv, "slice hi")
	mx := m.concInt(maxv, "slice max")
	m.setResult(fr, in, &SliceV{A: s.A[lo:hi:mx], Nil: s.Nil && lo == 0 && hi == 0})
}

func (m *Machine) typeAssert(fr *Frame, in *ssa.TypeAssert) {
	x := m.get(fr, in.X).(Iface)
	var ok bool
	var res Value
	if it, isIface := in.AssertedType.Underlying().(*types.Interface); isIface {
		if x.T != nil {
			ok = types.Implements(x.T, it)
		}
		res = x
		if !ok {
			res = Iface{}
		}
	} else {
		ok = x.T != nil && types.Identical(x.T, in.AssertedType)
		if ok {
			res = x.V
		} else {
			res = zero(in.AssertedType)
		}
	}
	if in.CommaOk {
		m.setResult(fr, in, Tuple{res, ok})
		return
	}
	if !ok {
		have := "nil"
		if x.T != nil {
			have = x.T.String()
		}
		m.throw("interface conversion: interface is " + have + ", not " + in.AssertedType.String() + " at " + m.pos(in))
	}
	m.setResult(fr, in, res)
}

func (m *Machine) builtin(g *G, fr *Frame, in ssa.Instruction, b *ssa.Builtin, args []Value, argExprs []ssa.Value) Value {
	switch b.Name() {
	case "ssa:wrapnilchk":
		// method-value wrapper of a pointer receiver: panics on a nil receiver, else the receiver
		if p, isPtr := args[0].(Ptr); isPtr && p == nil {
			m.throw("value method " + m.concStr(args[1], "wrapnilchk") + "." + m.concStr(args[2], "wrapnilchk") + " called using nil pointer")
		}
		return args[0]
	case "len":
		switch x := args[0].(type) {
		case *SliceV:
			if x == nil {
				return int64(0)
			}
			return int64(len(x.A))
		case string:
			return int64(len(x))
		case *MapV:
			if x == nil {
				return int64(0)
			}
			return int64(len(x.Keys))
		case *Chan:
			if x == nil {
				return int64(0)
			}
			return int64(len(x.Buf))
		case Array:
			return int64(len(x))
		case Ptr:
			return int64(len((*x).(Array)))
		case *StrNum, *StrAtom, *StrCat:
			return m.symStrLen(x)
		}
	case "cap":
		switch x := args[0].(type) {
		case *SliceV:
			return int64(cap(x.A))
		case *Chan:
			if x == nil {
				return int64(0)
			}
			return int64(x.Cap)
		case Array:
			return int64(len(x))
		}
	case "append":
		s := args[0].(*SliceV)
		if str, ok := args[1].(string); ok { // append([]byte, string...)
			return m.appendSlice(s, bytesVal([]byte(str)).(*SliceV).A, 1)
		}
		t := args[1].(*SliceV)
		if len(t.A) == 0 {
			return s
		}
		es := int64(8)
		if len(argExprs) > 0 {
			if st, ok := argExprs[0].Type().Underlying().(*types.Slice); ok {
				es = sizes.Sizeof(st.Elem())
			}
		}
		return m.appendSlice(s, t.A, es)
	case "close":
		ch, _ := args[0].(*Chan)
		m.chanClose(g, ch, in)
		return nil
	case "delete":
		mp := args[0].(*MapV)
		if mp == nil {
			return nil
		}
		m.raceWriteObj(g, mp, in)
		m.touchObj(mp)
		mp.del(m, args[1])
		return nil
	case "copy":
		d := args[0].(*SliceV)
		n := 0
		switch src := args[1].(type) {
		case *SliceV:
			tmp := make([]Value, len(src.A))
			for i := range tmp {
				tmp[i] = copyVal(src.A[i])
			}
			for n < len(d.A) && n < len(tmp) {
				m.touch(&d.A[n])
				d.A[n] = tmp[n]
				n++
			}
		case string:
			for n < len(d.A) && n < len(src) {
				d.A[n] = int64(src[n])
				n++
			}
		}
		return int64(n)
	case "recover":
		p := g.topPanic()
		if p != nil && !p.recovered && fr.isDeferred && fr.viaPanic == p {
			p.recovered = true
			return p.val
		}
		return Iface{}
	case "print", "println":
		return nil
	case "min", "max":
		best := args[0]
		for _, a := range args[1:] {
			var lt Value
			switch x := a.(type) {
			case int64, *Sym:
				lt = mkCmp("<", x, best)
			case float64:
				lt = x < best.(float64)
			case string:
				lt = x < best.(string)
			}
			less := m.truth(lt)
			if (b.Name() == "min") == less {
				best = a
			}
		}
		return best
	case "clear":
		switch x := args[0].(type) {
		case *MapV:
			if x != nil {
				x.Keys, x.Vals, x.sidx = nil, nil, nil
			}
		case *SliceV:
			for i := range x.A {
				x.A[i] = nil
			}
			m.fail("unsupported", "clear(slice)")
		}
		return nil
	}
	m.fail("unsupported", fmt.Sprintf("builtin %s(%T)", b.Name(), args[0]))
	return nil
}

var sizes = types.SizesFor("gc", "amd64")

// Go runtime malloc size classes (runtime/sizeclasses.go, go1.23)
var sizeClasses = []int64{0, 8, 16, 24, 32, 48, 64, 80, 96, 112, 128, 144, 160, 176, 192, 208, 224, 240, 256, 288, 320, 352, 384, 416, 448, 480, 512, 576, 640, 704, 768, 896, 1024, 1152, 1280, 1408, 1536, 1792, 2048, 2304, 2688, 3072, 3200, 3456, 4096, 4864, 5120, 5376, 6144, 6528, 6784, 6912, 8192, 9472, 9728, 10240, 10880, 12288, 13568, 14336, 16384, 18432, 19072, 20480, 21760, 24576, 27264, 28672, 32768}

func roundupsize(sz int64) int64 {
	if sz <= 32768 {
		for _, c := range sizeClasses {
			if c >= sz {
				return c
			}
		}
	}
	// large: round up to page size
	const page = 8192
	return (sz + page - 1) / page * page
}

// growCap reproduces runtime.growslice's capacity computation.
func growCap(oldCap, newLen, elemSize int64) int64 {
	newcap := oldCap
	doublecap := newcap + newcap
	if newLen > doublecap {
		newcap = newLen
	} else {
		const threshold = 256
		if oldCap < threshold {
			newcap = doublecap
		} else {
			for newcap < newLen {
				newcap += (newcap + 3*threshold) >> 2
			}
		}
	}
	if elemSize == 0 {
		return newcap
	}
	return roundupsize(newcap*elemSize) / elemSize
}

func (m *Machine) appendSlice(s *SliceV, elems []Value, elemSize int64) *SliceV {
	var base []Value
	if s != nil {
		base = s.A
	}
	n := len(base) + len(elems)
	if n <= cap(base) {
		na := base[:n]
		for i, e := range elems {
			m.touch(&na[len(base)+i])
			na[len(base)+i] = copyVal(e)
		}
		return &SliceV{A: na}
	}
	nc := growCap(int64(cap(base)), int64(n), elemSize)
	na := make([]Value, n, nc)
	copy(na, base)
	for i, e := range elems {
		na[len(base)+i] = copyVal(e)
	}
	// fill the spare capacity with nil cells (never observable before being overwritten by append,
	// but reslicing up to cap exposes zero values)
	return &SliceV{A: na}
}

func isSymStr(v Value) bool {
	switch v.(type) {
	case *StrNum, *StrCat, *StrAtom:
		return true
	}
	return false
}

func (m *Machine) truth(v Value) bool {
	switch v := v.(type) {
	case bool:
		return v
	case *Sym:
		return m.ex.branch(m, v.E)
	}
	panic(fmt.Sprintf("truth %T", v))
}

// indexSplit: bounds obligation + case split of a symbolic index
func (m *Machine) indexSplit(v Value, n int64, in ssa.Instruction) int64 {
	switch v := v.(type) {
	case int64:
		if v < 0 || v >= n {
			m.throw(fmt.Sprintf("index out of range [%d] with length %d at %s", v, n, m.pos(in)))
		}
		return v
	case *Sym:
		oob := mkOr(mkCmp("<", v, int64(0)), mkCmp(">=", v, n))
		if m.truth(oob) {
			m.throw(fmt.Sprintf("index out of range [%s] with length %d at %s", v.E, n, m.pos(in)))
		}
		return m.ex.concretize(m, v, "index")
	}
	panic("indexSplit")
}
