package main

func init() {
	files := []string{"root/fed.go", "root/c01.go", "root/c16.go"}
	fns := []string{"introspection.(*IntrospectionResolver).ResolveIntrospectionFields", "introspection.(*IntrospectionResolver).resolveSchema", "introspection.(*IntrospectionResolver).resolveType", "introspection.(*IntrospectionResolver).resolveField", "introspection.(*IntrospectionResolver).resolveInputValue", "introspection.(*IntrospectionResolver).resolveDirective", "introspection.resolveEnumValue", "introspection.hasDeprecatedDirective", "introspection.sortPayload", "(*Gateway).parseIntrospectionQuery", "(*Gateway).queryHandler", "introspection.introspectRemoteSchema (round trip)"}
	reg(&Property{
		ID:    "C16",
		Title: "What the gateway reports about its schema is the schema it enforces",
		Kernels: []Kernel{
			{Name: "type-entries", Pkg: ".", Files: files, Entry: "VerifIntrospectionAnswers", Mode: "seq", Native: true,
				Reach: []string{"type entry checked", "shape checked", "abstract type", "input object"}, Functions: fns},
			{Name: "sibling-selections", Pkg: ".", Files: files, Entry: "VerifIntrospectionSiblings", Mode: "seq", Native: true,
				Reach: []string{"sibling selections checked"}, Functions: fns},
			{Name: "request-history", Pkg: ".", Files: files, Entry: "VerifIntrospectionHistory", Mode: "seq", Native: true,
				Quick: map[string]int{"hmax": 2}, Thorough: map[string]int{"hmax": 3},
				Reach: []string{"history answered"}, Functions: fns},
			{Name: "round-trip", Pkg: ".", Files: files, Entry: "VerifIntrospectionRoundTrip", Mode: "seq", Native: true,
				Reach: []string{"round trip", "services with nothing but node", "empty query type refused"}, Functions: fns},
		},
		Assume: []string{
			"one merged scenario schema (interface, union, enum with a deprecated value, input object with defaults, custom scalar, deprecated field, argument default, mutation root); the type asked for and literal-vs-variable are symbolic choices",
			"request-history: hmax introspection requests with the same text and operation name on one gateway, type name and includeDeprecated passed as variables with independently chosen values; then an ordinary operation that needs a required argument",
			"gqlparser native; canonical schedule; encoding/json = abstract codec",
		},
		Outside: []string{"schemas other than the scenario", "partial selections other than the full type selection"},
	})
}
