package main

func init() {
	files := []string{"root/fed.go", "root/c01.go", "root/ws.go", "root/c18.go"}
	fns := []string{"(*Gateway).subscriptionHandler", "subscriptionDict.Clean", "subscriptionDict.CleanAll", "(*subscriptionEntry).Close", "(*subscriptionEntry).Listen", "(*subscriptionEntry).prepareResponse", "(*Gateway).newSubscriptionEntry", "sendHeartbeat", "queryer.(*MultiOpQueryer).Subscribe", "queryer.(*MultiOpQueryer).Subscribe$1", "queryer.(*MultiOpQueryer).Subscribe$2"}
	reg(&Property{
		ID:    "C18",
		Title: "Subscription teardown is safe under every interleaving",
		Kernels: []Kernel{
			{Name: "teardown-all-interleavings", Pkg: ".", Files: files, Entry: "VerifTeardown", Mode: "all", Race: true,
				Quick: map[string]int{"maxsteps": 1, "maxevents": 1, "ticks": 0, "slim": 1}, Thorough: map[string]int{"maxsteps": 1, "maxevents": 1, "ticks": 0, "slim": 1, "kinds": 10, "mayreset": 1, "barepayload": 1, "budget_s": 6000},
				Reach: []string{"handler returned"}, Functions: fns},
			// two client messages: start followed by each kind of second message, one slice per kernel
			// (the unsliced exploration exceeded the 62 GB of this machine)
			{Name: "teardown-start-then-stop", Pkg: ".", Files: files, Entry: "VerifTeardown", Mode: "all", Race: true, ThoroughOnly: true,
				Thorough: map[string]int{"maxsteps": 2, "maxevents": 1, "ticks": 0, "slim": 1, "pin_first": 0, "pin_second": 1, "budget_s": 3000},
				Reach:    []string{"handler returned"}, Functions: fns},
			{Name: "teardown-start-then-terminate", Pkg: ".", Files: files, Entry: "VerifTeardown", Mode: "all", Race: true, ThoroughOnly: true,
				Thorough: map[string]int{"maxsteps": 2, "maxevents": 1, "ticks": 0, "slim": 1, "pin_first": 0, "pin_second": 3, "budget_s": 3000},
				Reach:    []string{"handler returned"}, Functions: fns},
			{Name: "teardown-start-then-second-start", Pkg: ".", Files: files, Entry: "VerifTeardown", Mode: "all", Race: true, ThoroughOnly: true,
				Thorough: map[string]int{"maxsteps": 2, "maxevents": 1, "ticks": 0, "slim": 1, "pin_first": 0, "pin_second": 6, "budget_s": 3000},
				Reach:    []string{"handler returned"}, Functions: fns},
			{Name: "teardown-start-then-same-start", Pkg: ".", Files: files, Entry: "VerifTeardown", Mode: "all", Race: true, ThoroughOnly: true,
				Thorough: map[string]int{"maxsteps": 2, "maxevents": 1, "ticks": 0, "slim": 1, "pin_first": 0, "pin_second": 0, "budget_s": 3000},
				Reach:    []string{"handler returned"}, Functions: fns},
			{Name: "teardown-start-then-ignored-message", Pkg: ".", Files: files, Entry: "VerifTeardown", Mode: "all", Race: true, ThoroughOnly: true,
				Thorough: map[string]int{"maxsteps": 2, "maxevents": 1, "ticks": 0, "slim": 1, "pin_first": 0, "noise_second": 1, "budget_s": 3000},
				Reach:    []string{"handler returned"}, Functions: fns},
			// two running subscriptions and every third message, under the canonical schedule: what has to be
			// closed at the end is closed (every upstream connection, every goroutine)
			{Name: "teardown-with-sub-request-in-flight", Pkg: ".", Files: append(append([]string{}, files...), "root/c10.go", "root/c18b.go"), Entry: "VerifTeardownStalled", Mode: "seq", Race: true,
				Reach: []string{"handler returned with a sub-request in flight"}, Functions: fns},
			{Name: "teardown-with-sub-request-in-flight-all-interleavings", Pkg: ".", Files: append(append([]string{}, files...), "root/c10.go", "root/c18b.go"), Entry: "VerifTeardownStalled", Mode: "all", Race: true, ThoroughOnly: true,
				Thorough: map[string]int{"budget_s": 3000},
				Reach:    []string{"handler returned with a sub-request in flight"}, Functions: fns},
			{Name: "two-subscriptions-canonical", Pkg: ".", Files: files, Entry: "VerifTeardown", Mode: "seq",
				Quick:    map[string]int{"maxsteps": 3, "maxevents": 1, "ticks": 0, "pin_first": 0, "pin_second": 6, "kinds": 10, "mayreset": 1, "barepayload": 1, "upbroken": 1},
				Thorough: map[string]int{"maxsteps": 3, "maxevents": 1, "ticks": 0, "pin_first": 0, "pin_second": 6, "kinds": 10, "mayreset": 1, "barepayload": 1, "upbroken": 1},
				Reach:    []string{"handler returned", "two subscriptions running"}, Functions: fns},
			// a second connection_init while a subscription delivers an event: the acknowledgement and the event
			// frame are written by different goroutines
			{Name: "repeated-init-vs-listener", Pkg: ".", Files: files, Entry: "VerifTeardown", Mode: "all", Race: true,
				Quick:    map[string]int{"maxsteps": 2, "kinds": 8, "maxevents": 1, "ticks": 0, "pin_first": 0, "pin_second": 7, "pin_upend": 3, "pin_events": 1, "exactsteps": 2},
				Thorough: map[string]int{"maxsteps": 2, "kinds": 8, "maxevents": 1, "ticks": 0, "pin_first": 0, "pin_second": 7, "slim": 1},
				Reach:    []string{"handler returned"}, Functions: fns},
			{Name: "heartbeat-vs-listener", Pkg: ".", Files: files, Entry: "VerifTeardown", Mode: "all", Race: true,
				Quick:    map[string]int{"maxsteps": 1, "maxevents": 1, "ticks": 1, "pin_client": 0, "pin_upend": 3, "pin_events": 1},
				Thorough: map[string]int{"maxsteps": 1, "maxevents": 1, "ticks": 1, "pin_client": 0, "slim": 1, "stitched": 1, "budget_s": 10000},
				Reach:    []string{"handler returned"}, Functions: fns},
		},
		Assume: []string{
			"websocket library = harness connection model (message queue + closed flag; a text frame is two writes with a scheduling point between them); upgrade and dial always succeed; the ticker may fire at any scheduling point at most `ticks` times",
			"client scripts of <= maxsteps messages from {start, stop, stop of unknown id, terminate, malformed JSON, unknown type, second start, connection_init again, start without payload} followed by an abrupt disconnect (optionally a connection reset: the gateway's writes fail from then on); the upstream may send a data message without payload; upstream scripts of <= maxevents events followed by complete / error frame / disconnect / staying open",
			"engine's model of channels, select, Mutex (TryLock), defer/recover (exact nested semantics), closing a channel panics parked senders in their own goroutine",
		},
		Outside: []string{"real websocket framing and TCP", "several client connections at once", "longer scripts"},
	})
}
