module symgo

go 1.23

require (
	github.com/buildbuildio/pebbles v0.0.0
	github.com/vektah/gqlparser/v2 v2.5.1
	golang.org/x/tools v0.29.0
)

require (
	github.com/agnivade/levenshtein v1.1.1 // indirect
	github.com/gobwas/httphead v0.1.0 // indirect
	github.com/gobwas/pool v0.2.1 // indirect
	github.com/gobwas/ws v1.1.0 // indirect
	github.com/samber/lo v1.37.0 // indirect
	golang.org/x/exp v0.0.0-20220303212507-bbda1eaf7a17 // indirect
	golang.org/x/mod v0.22.0 // indirect
	golang.org/x/sync v0.10.0 // indirect
)

replace github.com/buildbuildio/pebbles => /repo
