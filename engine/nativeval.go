package main

import (
	"bufio"
	"encoding/json"
	"fmt"
	"os"
	"os/exec"
	"path/filepath"
	"sort"
	"strings"
)

// Translator validation (DESIGN §3.4): sampled paths of a kernel are turned into concrete input vectors
// (explored choices + solver model of the symbolic variables) and the SAME harness is compiled and run
// natively against /repo (`go test -overlay`, the verif* primitives replay the vector). The native
// outcome (completed / first failing assertion / panic) must equal the engine's verdict for that path.

type primRec struct {
	P string `json:"p"` // choice | int | bool | numstr | atom
	N string `json:"n"`
	V string `json:"v"`
	e string // SMT expression whose model value fills V at the end of the path
}

type nativeVector struct {
	ID     int            `json:"id"`
	Log    []primRec      `json:"log"`
	Params map[string]int `json:"params"`
	Expect string         `json:"expect"` // ok | violation | panic
	Label  string         `json:"label"`
}

func nativePrims(pkg string, httpPkgs bool) string {
	src := `package ` + pkg + `

import (
	"encoding/json"
	"fmt"
	"os"
	"os/exec"
	"runtime"
	"strconv"
	"strings"
	"sync"
	"testing"
`
	if httpPkgs {
		src += `	"io"
	"net/http"
`
	}
	src += `)

type vPrimRec struct{ P, N, V string }
type vVector struct {
	ID     int
	Log    []vPrimRec
	Params map[string]int
	Expect string
	Label  string
}
type vAssertFail struct{ label string }
type vInfeasible struct{}
type vDiverged struct{ what string }

var vMu sync.Mutex
var vQueues map[string][]string
var vParams map[string]int

func vNext(p, n string) string {
	vMu.Lock()
	defer vMu.Unlock()
	q := vQueues[p+"|"+n]
	if len(q) == 0 {
		panic(vDiverged{p + " " + n + " not in the recorded vector"})
	}
	vQueues[p+"|"+n] = q[1:]
	return q[0]
}

func verifInt(name string, lo, hi int) int {
	if lo == hi {
		return lo
	}
	v, _ := strconv.Atoi(vNext("int", name))
	return v
}
func verifBool(name string) bool          { return vNext("bool", name) == "true" }
func verifChoice(name string, n int) int  { v, _ := strconv.Atoi(vNext("choice", name)); return v }
func verifNumStr(name string, lo, hi int) string { return vNext("numstr", name) }
func verifItoa(n int) string              { return strconv.Itoa(n) }
func verifAtom(name string, nfresh int, domain ...string) string { return vNext("atom", name) }
func verifAssume(c bool) {
	if !c {
		panic(vInfeasible{})
	}
}
func verifAssert(c bool, label string) {
	if !c {
		// may run in any goroutine: report and end the process, as the engine ends the path
		vEmit(vCurrentID, "violation", label)
		os.Exit(0)
	}
}
func verifReach(label string)    {}
func verifOutcome(key, outcome string) {}
func verifYield()                { runtime.Gosched() }
func verifKnown(id string, c bool) {}
func verifParam(name string, def int) int {
	if v, ok := vParams[name]; ok {
		return v
	}
	return def
}
func verifConcInt(x int) int       { return x }
func verifConcStr(s string) string { return s }
func verifLog(s string)            {}
func verifGoroutines() int         { return runtime.NumGoroutine() }
func verifClosure(name string, env ...interface{}) interface{} { panic("verifClosure has no native counterpart") }
`
	if httpPkgs {
		src += `
func verifRequestBody(r *http.Request) []byte {
	if r.Body == nil {
		return nil
	}
	b, _ := io.ReadAll(r.Body)
	return b
}
func verifSetMultipart(req *http.Request, fieldNames, fieldValues, fileKeys, fileNames, fileContents []string) {
	panic("multipart model has no native counterpart")
}
func verifRequestMultipart(req *http.Request) map[string]interface{} { return nil }
func verifSpillFiles(req *http.Request)                                   {}

// vNativeTransport routes the real http.Client to the harness transport
type vNativeTransport struct{ do func(*http.Request) (*http.Response, error) }

func (t vNativeTransport) RoundTrip(r *http.Request) (*http.Response, error) {
	if r.Host == "" && r.URL != nil {
		r.Host = r.URL.Host
		if r.Host == "" {
			r.Host = r.URL.String() // service "URLs" of the harness are bare names
		}
	}
	return t.do(r)
}
`
	}
	src += `
func vEmit(id int, outcome, label string) {
	b, _ := json.Marshal(map[string]interface{}{"id": id, "outcome": outcome, "label": label})
	fmt.Println("VERIF-NATIVE " + string(b))
}

var vCurrentID int

// every vector runs in its own process (package-level harness state starts fresh, as it does on every
// path of the symbolic executor; a crash of the process is the outcome "panic")
func TestVerifNative(t *testing.T) {
	raw, err := os.ReadFile(os.Getenv("VERIF_NATIVE_VECTORS"))
	if err != nil {
		t.Fatal(err)
	}
	var vecs []vVector
	if err := json.Unmarshal(raw, &vecs); err != nil {
		t.Fatal(err)
	}
	if idStr := os.Getenv("VERIF_VECTOR_ID"); idStr != "" {
		id, _ := strconv.Atoi(idStr)
		for _, v := range vecs {
			if v.ID == id {
				vRunVector(v)
			}
		}
		return
	}
	for _, v := range vecs {
		cmd := exec.Command(os.Args[0], "-test.run=^TestVerifNative$", "-test.v", "-test.timeout=120s")
		cmd.Env = append(os.Environ(), "VERIF_VECTOR_ID="+strconv.Itoa(v.ID))
		out, _ := cmd.CombinedOutput()
		found := false
		for _, line := range strings.Split(string(out), "\n") {
			if i := strings.Index(line, "VERIF-NATIVE "); i >= 0 && !found {
				fmt.Println(line[i:])
				found = true
			}
		}
		if !found {
			tail := string(out)
			if len(tail) > 300 {
				tail = tail[:300]
			}
			vEmit(v.ID, "panic", "process crashed: "+tail)
		}
	}
}

func vRunVector(v vVector) {
	vCurrentID = v.ID
	vQueues = map[string][]string{}
	for _, r := range v.Log {
		vQueues[r.P+"|"+r.N] = append(vQueues[r.P+"|"+r.N], r.V)
	}
	vParams = v.Params
	outcome, label := "ok", ""
	func() {
		defer func() {
			if r := recover(); r != nil {
				switch x := r.(type) {
				case vAssertFail:
					outcome, label = "violation", x.label
				case vInfeasible:
					outcome = "infeasible"
				case vDiverged:
					outcome, label = "diverged", x.what
				default:
					outcome, label = "panic", fmt.Sprint(r)
				}
			}
		}()
		vNativeEntry()
	}()
	vEmit(v.ID, outcome, label)
}
`
	return src
}

// nativeValidate runs the recorded vectors of one kernel natively and returns (agreeing, disagreements)
func nativeValidate(k *Kernel, vecs []nativeVector) (int, []string) {
	if len(vecs) == 0 {
		return 0, nil
	}
	dir := filepath.Join(verifRoot, "out", "native")
	os.MkdirAll(dir, 0o755)
	vecFile := filepath.Join(dir, fmt.Sprintf("%s-%d.json", k.Name, os.Getpid()))
	b, _ := json.Marshal(vecs)
	os.WriteFile(vecFile, b, 0o644)
	keep := os.Getenv("SYMGO_KEEPNATIVE") != ""
	if !keep {
		defer os.Remove(vecFile)
	}
	pdir := k.Pkg
	if pdir == "." {
		pdir = ""
	}
	replace := map[string]string{}
	var tmpFiles []string
	put := func(virtual string, content []byte) {
		real := filepath.Join(dir, fmt.Sprintf("%d-%s", os.Getpid(), strings.ReplaceAll(strings.TrimPrefix(virtual, repoRoot+"/"), "/", "_")))
		os.WriteFile(real, content, 0o644)
		replace[virtual] = real
		tmpFiles = append(tmpFiles, real)
	}
	put(filepath.Join(repoRoot, pdir, "zz_verif_prims_test.go"), primsSource(pkgName(k.Pkg), true))
	for _, f := range k.Files {
		src, _ := os.ReadFile(filepath.Join(verifRoot, "harness", f))
		base := strings.TrimSuffix(filepath.Base(f), ".go")
		put(filepath.Join(repoRoot, pdir, "zz_verif_"+base+"_test.go"), src)
	}
	put(filepath.Join(repoRoot, pdir, "zz_verif_entry_test.go"), []byte("package "+pkgName(k.Pkg)+"\n\nfunc vNativeEntry() { "+k.Entry+"() }\n"))
	defer func() {
		if keep {
			return
		}
		for _, f := range tmpFiles {
			os.Remove(f)
		}
	}()
	ov, _ := json.Marshal(map[string]interface{}{"Replace": replace})
	ovFile := filepath.Join(dir, fmt.Sprintf("overlay-%d.json", os.Getpid()))
	os.WriteFile(ovFile, ov, 0o644)
	if keep {
		fmt.Printf("... native validation kept: VERIF_NATIVE_VECTORS=%s go test -vet=off -count=1 -v -run '^TestVerifNative$' -overlay %s (in %s)\n", vecFile, ovFile, repoRoot)
	} else {
		defer os.Remove(ovFile)
	}
	pkgArg := "./" + pdir
	if pdir == "" {
		pkgArg = "."
	}
	cmd := exec.Command("go", "test", "-vet=off", "-count=1", "-timeout", "10m", "-v", "-run", "^TestVerifNative$", "-overlay", ovFile, pkgArg)
	cmd.Dir = repoRoot
	cmd.Env = append(os.Environ(), "VERIF_NATIVE_VECTORS="+vecFile, "GOFLAGS=-mod=mod", "GOPROXY=off", "GOSUMDB=off", "GOTOOLCHAIN=local")
	out, _ := cmd.CombinedOutput()
	got := map[int]map[string]interface{}{}
	sc := bufio.NewScanner(strings.NewReader(string(out)))
	sc.Buffer(make([]byte, 1<<20), 1<<24)
	for sc.Scan() {
		line := sc.Text()
		if i := strings.Index(line, "VERIF-NATIVE "); i >= 0 {
			var m map[string]interface{}
			if json.Unmarshal([]byte(line[i+13:]), &m) == nil {
				got[int(m["id"].(float64))] = m
			}
		}
	}
	agree := 0
	var bad []string
	for _, v := range vecs {
		g := got[v.ID]
		if g == nil {
			tail := string(out)
			if len(tail) > 600 {
				tail = tail[len(tail)-600:]
			}
			bad = append(bad, fmt.Sprintf("vector %d: no native outcome (build or run failed): %s", v.ID, strings.ReplaceAll(tail, "\n", " | ")))
			break
		}
		o, _ := g["outcome"].(string)
		l, _ := g["label"].(string)
		switch {
		case o == v.Expect && (o != "violation" || strings.HasPrefix(v.Label, l)):
			agree++
		default:
			bad = append(bad, fmt.Sprintf("vector %d: engine says %s %q, native run says %s %q", v.ID, v.Expect, v.Label, o, l))
		}
	}
	sort.Strings(bad)
	return agree, bad
}
