package main

// Registry of properties and their kernels (harness entry points executed symbolically).

type Kernel struct {
	Name         string
	Pkg          string   // repo-relative directory of the package the harness is overlaid into ("." = root)
	Files        []string // harness sources under /verif/harness
	Entry        string
	Mode         string // "all": all interleavings (stateful search) | "seq": canonical schedule
	Race         bool   // run the happens-before race detector
	Solver       string // "z3" (default) | "cvc5"
	Quick        map[string]int
	Thorough     map[string]int
	Reach        []string // mandatory vacuity witnesses
	Known        []string // known-finding ids this kernel may report
	Functions    []string // functions of /repo executed symbolically (for evidence)
	NoInit       bool
	Native       bool // sampled paths are replayed natively (go test -overlay) and must agree with the engine
	ThoroughOnly bool
}

type Property struct {
	ID      string
	Title   string
	Kernels []Kernel
	Assume  []string
	Outside []string
}

var properties = map[string]*Property{}

func reg(p *Property) { properties[p.ID] = p }
