package main

import (
	"crypto/sha256"
	"fmt"
	"os"
	"sort"
	"strings"
	"sync"

	"golang.org/x/tools/go/ssa"
)

// Canonical state hashing for the stateful schedule search (DESIGN §2.5): cells are
// numbered in traversal order so that pointer identity and aliasing are part of the hash;
// the path condition is hashed as a sorted, de-duplicated set.

type hasher struct {
	sb    strings.Builder
	cells map[*Value]int
	objs  map[interface{}]int
	m     *Machine
	// freeze mode: collect the cells / map objects visited for the first time
	collect  bool
	newCells []*Value
	newObjs  []interface{}
	regs     map[*region]int // canonical instance numbering of regions, by first visit
}

func (h *hasher) regAlias(r *region) int {
	if h.regs == nil {
		h.regs = map[*region]int{}
	}
	if a, ok := h.regs[r]; ok {
		return a
	}
	a := len(h.regs)
	h.regs[r] = a
	return a
}

// region is an imported object graph that has not been written to since: it is hashed by its
// content digest instead of being traversed at every scheduling point.
type region struct {
	tag   string
	dirty bool
}

// cachedRegion is an imported object graph kept by a worker across paths: as long as no path wrote to
// it (write barrier), the next path that performs the same native call gets the same objects back
// instead of a fresh import.
type cachedRegion struct {
	root  Value
	r     *region
	cells []*Value
	objs  []interface{}
	inUse bool
	exp   *exportCache
}

type exportCache struct {
	native interface{}
	ex     *Exporter
}

type frozenRef struct {
	r   *region
	idx int
}

// freeze registers everything reachable from roots (and not yet frozen) as one region.
func (m *Machine) freeze(roots ...Value) {
	if m.ex.ex.cfg.Mode != "all" {
		return
	}
	h := &hasher{cells: map[*Value]int{}, objs: map[interface{}]int{}, m: m, collect: true}
	for _, r := range roots {
		h.val(r)
		h.sb.WriteString("|")
	}
	if len(h.newCells) == 0 && len(h.newObjs) == 0 {
		return
	}
	d := sha256.Sum256([]byte(h.sb.String()))
	base := fmt.Sprintf("%x", d[:12])
	if m.regionSeq == nil {
		m.regionSeq = map[string]int{}
		m.frozen = map[*Value]frozenRef{}
		m.frozenObj = map[interface{}]frozenRef{}
	}
	r := &region{tag: "R" + base}
	for i, c := range h.newCells {
		m.frozen[c] = frozenRef{r, i}
	}
	for i, o := range h.newObjs {
		m.frozenObj[o] = frozenRef{r, i}
	}
}

// freezeKeyed registers everything reachable from roots as one region whose content is fully
// determined by key (the inputs of the native call that produced it): no digest traversal needed.
func (m *Machine) freezeKeyed(key string, roots ...Value) *cachedRegion {
	if m.ex.ex.cfg.Mode != "all" {
		return nil
	}
	m.useWorkerRegions()
	d := sha256.Sum256([]byte(key))
	base := fmt.Sprintf("%x", d[:12])
	r := &region{tag: "K" + base}
	cr := &cachedRegion{r: r, inUse: true}
	if len(roots) == 1 {
		cr.root = roots[0]
	}
	n, no := 0, 0
	var walk func(v Value)
	cell := func(c *Value) {
		if c == nil {
			return
		}
		if _, ok := m.frozen[c]; ok {
			return
		}
		m.frozen[c] = frozenRef{r, n}
		cr.cells = append(cr.cells, c)
		n++
		walk(*c)
	}
	walk = func(v Value) {
		switch v := v.(type) {
		case Ptr:
			cell(v)
		case Struct:
			for i := range v {
				cell(&v[i])
			}
		case Array:
			for i := range v {
				cell(&v[i])
			}
		case Tuple:
			for i := range v {
				walk(v[i])
			}
		case *SliceV:
			if v == nil || v.Nil {
				return
			}
			full := v.A[:cap(v.A)]
			for i := range full {
				cell(&full[i])
			}
		case *MapV:
			if v == nil {
				return
			}
			if _, ok := m.frozenObj[v]; ok {
				return
			}
			m.frozenObj[v] = frozenRef{r, no}
			cr.objs = append(cr.objs, v)
			no++
			for i := range v.Keys {
				walk(v.Keys[i])
				cell(&v.Vals[i])
			}
		case Iface:
			if v.T != nil {
				walk(v.V)
			}
		}
	}
	for _, x := range roots {
		walk(x)
	}
	w := m.ex
	if w.regionCache == nil {
		w.regionCache = map[string][]*cachedRegion{}
	}
	w.regionCache[key] = append(w.regionCache[key], cr)
	return cr
}

// useWorkerRegions makes the machine use the worker's persistent frozen-cell tables
func (m *Machine) useWorkerRegions() {
	if m.frozen != nil {
		return
	}
	w := m.ex
	if w.frozen == nil {
		w.frozen = make(map[*Value]frozenRef, 1<<14)
		w.frozenObj = make(map[interface{}]frozenRef, 1<<10)
	}
	m.frozen, m.frozenObj = w.frozen, w.frozenObj
	m.regionSeq = map[string]int{}
}

// cachedImport returns a clean cached region for key that this path has not used yet
func (m *Machine) cachedImport(key string) *cachedRegion {
	if m.ex.ex.cfg.Mode != "all" {
		return nil
	}
	m.useWorkerRegions()
	for _, cr := range m.ex.regionCache[key] {
		if !cr.inUse && !cr.r.dirty {
			cr.inUse = true
			return cr
		}
	}
	return nil
}

// recycleRegions runs between paths: dirty regions are dropped, clean ones become available again
func (w *Worker) recycleRegions() {
	for key, list := range w.regionCache {
		keep := list[:0]
		for _, cr := range list {
			if cr.r.dirty {
				for _, c := range cr.cells {
					delete(w.frozen, c)
				}
				for _, o := range cr.objs {
					delete(w.frozenObj, o)
				}
				continue
			}
			cr.inUse = false
			keep = append(keep, cr)
		}
		if len(keep) == 0 {
			delete(w.regionCache, key)
		} else {
			w.regionCache[key] = keep
		}
	}
}

// regionOf returns the clean frozen region a pointer belongs to
func (m *Machine) regionOf(v Value) *region {
	p, ok := v.(Ptr)
	if !ok || p == nil || m.frozen == nil {
		return nil
	}
	if fr, ok := m.frozen[(*Value)(p)]; ok && !fr.r.dirty {
		return fr.r
	}
	return nil
}

// regionTagOf returns the tag of the clean frozen region a pointer belongs to ("" if none)
func (m *Machine) regionTagOf(v Value) string {
	p, ok := v.(Ptr)
	if !ok || p == nil || m.frozen == nil {
		return ""
	}
	if fr, ok := m.frozen[(*Value)(p)]; ok && !fr.r.dirty {
		return fr.r.tag
	}
	return ""
}

// touch is the write barrier of frozen regions
func (m *Machine) touch(c *Value) {
	if m.frozen != nil {
		if fr, ok := m.frozen[c]; ok {
			fr.r.dirty = true
		}
	}
}

func (m *Machine) touchObj(o interface{}) {
	if m.frozenObj != nil {
		if fr, ok := m.frozenObj[o]; ok {
			fr.r.dirty = true
		}
	}
}

func (h *hasher) cell(c *Value) {
	if c == nil {
		h.sb.WriteString("nil")
		return
	}
	if h.m.frozen != nil {
		if fr, ok := h.m.frozen[c]; ok && !fr.r.dirty {
			fmt.Fprintf(&h.sb, "%s.%d#%d", fr.r.tag, h.regAlias(fr.r), fr.idx)
			return
		}
	}
	if h.collect {
		if _, seen := h.cells[c]; !seen {
			h.newCells = append(h.newCells, c)
		}
	}
	if id, ok := h.cells[c]; ok {
		fmt.Fprintf(&h.sb, "@%d", id)
		return
	}
	id := len(h.cells)
	h.cells[c] = id
	fmt.Fprintf(&h.sb, "#%d=", id)
	h.val(*c)
}

func (h *hasher) obj(o interface{}) (int, bool) {
	if id, ok := h.objs[o]; ok {
		return id, true
	}
	id := len(h.objs)
	h.objs[o] = id
	return id, false
}

func (h *hasher) val(v Value) {
	switch v := v.(type) {
	case nil:
		h.sb.WriteString("_")
	case bool, int64, float64:
		fmt.Fprintf(&h.sb, "%v", v)
	case string:
		fmt.Fprintf(&h.sb, "%q", v)
	case *Sym:
		h.sb.WriteString("S(" + v.E + ")")
	case *JSONBlob:
		h.sb.WriteString("J(")
		h.val(v.V)
		h.sb.WriteString(")")
	case *JSONLeaf:
		h.sb.WriteString("JL(" + v.Kind + ":")
		h.val(v.V)
		h.sb.WriteString(")")
	case *StrBlob:
		h.sb.WriteString("SB(")
		h.val(v.S)
		h.sb.WriteString(")")
	case *MapIter:
		fmt.Fprintf(&h.sb, "MI%d(", v.I)
		h.val(v.M)
		h.sb.WriteString(")")
	case *StrIter:
		fmt.Fprintf(&h.sb, "SI%d(%q)", v.I, v.S)
	case *StrNum:
		h.sb.WriteString("N(")
		h.val(v.N)
		h.sb.WriteString(")")
	case *StrAtom:
		h.sb.WriteString("At(" + v.Code.E + ")")
	case *StrCat:
		h.sb.WriteString("Cat(")
		for _, p := range v.Parts {
			h.val(p)
		}
		h.sb.WriteString(")")
	case Ptr:
		h.sb.WriteString("P")
		h.cell(v)
	case Struct:
		h.sb.WriteString("{")
		for i := range v {
			h.cell(&v[i])
			h.sb.WriteString(",")
		}
		h.sb.WriteString("}")
	case Array:
		h.sb.WriteString("A[")
		for i := range v {
			h.cell(&v[i])
			h.sb.WriteString(",")
		}
		h.sb.WriteString("]")
	case Tuple:
		h.sb.WriteString("T(")
		for i := range v {
			h.val(v[i])
			h.sb.WriteString(",")
		}
		h.sb.WriteString(")")
	case *SliceV:
		if v == nil || v.Nil {
			h.sb.WriteString("nilslice")
			return
		}
		fmt.Fprintf(&h.sb, "L%d/%d[", len(v.A), cap(v.A))
		full := v.A[:cap(v.A)]
		if len(full) > 64 {
			allBytes := true
			for _, x := range full {
				if _, ok := x.(int64); !ok {
					allBytes = false
					break
				}
			}
			if allBytes { // large byte/int buffers: hashed by content, elements not numbered
				hh := sha256.New()
				for _, x := range full {
					fmt.Fprintf(hh, "%d,", x.(int64))
				}
				fmt.Fprintf(&h.sb, "bytes:%x]", hh.Sum(nil)[:12])
				return
			}
		}
		for i := range full {
			h.cell(&full[i])
			h.sb.WriteString(",")
		}
		h.sb.WriteString("]")
	case *MapV:
		if v == nil {
			h.sb.WriteString("nilmap")
			return
		}
		if h.m.frozenObj != nil {
			if fr, ok := h.m.frozenObj[v]; ok && !fr.r.dirty {
				fmt.Fprintf(&h.sb, "%s.%d@%d", fr.r.tag, h.regAlias(fr.r), fr.idx)
				return
			}
		}
		id, seen := h.obj(v)
		fmt.Fprintf(&h.sb, "M%d", id)
		if !seen {
			if h.collect {
				h.newObjs = append(h.newObjs, v)
			}
			h.sb.WriteString("{")
			for i := range v.Keys {
				h.val(v.Keys[i])
				h.sb.WriteString(":")
				h.cell(&v.Vals[i])
				h.sb.WriteString(",")
			}
			h.sb.WriteString("}")
		}
	case Iface:
		if v.T == nil {
			h.sb.WriteString("I(nil)")
			return
		}
		h.sb.WriteString("I(" + v.T.String() + ":")
		h.val(v.V)
		h.sb.WriteString(")")
	case *Closure:
		if v == nil {
			h.sb.WriteString("nilfn")
			return
		}
		h.sb.WriteString("C(" + v.Fn.String())
		for _, e := range v.Env {
			h.val(e)
			h.sb.WriteString(",")
		}
		h.sb.WriteString(")")
	case *ssa.Function:
		if v == nil {
			h.sb.WriteString("nilfn")
			return
		}
		h.sb.WriteString("F(" + v.String() + ")")
	case *ssa.Builtin:
		h.sb.WriteString("B(" + v.Name() + ")")
	case *Opaque:
		if v == nil {
			h.sb.WriteString("nilopq")
			return
		}
		id, seen := h.obj(v)
		fmt.Fprintf(&h.sb, "O%d:%s", id, v.Kind)
		if !seen {
			if hs, ok := v.X.(interface{ hashInto(h *hasher) }); ok {
				hs.hashInto(h)
			}
		}
	case *Chan:
		if v == nil {
			h.sb.WriteString("nilchan")
			return
		}
		id, seen := h.obj(v)
		fmt.Fprintf(&h.sb, "Ch%d", id)
		if !seen {
			fmt.Fprintf(&h.sb, "{c=%v cap=%d buf=", v.Closed, v.Cap)
			for _, b := range v.Buf {
				h.val(b)
				h.sb.WriteString(",")
			}
			h.sb.WriteString(" rq=")
			for _, w := range v.RecvQ {
				if !(w.Done || (w.Sel != nil && w.Sel.Fired)) {
					fmt.Fprintf(&h.sb, "g%d/%d,", w.G.id, w.CaseIdx)
				}
			}
			h.sb.WriteString(" sq=")
			for _, w := range v.SendQ {
				if !(w.Done || (w.Sel != nil && w.Sel.Fired)) {
					fmt.Fprintf(&h.sb, "g%d/%d:", w.G.id, w.CaseIdx)
					h.val(w.Val)
					h.sb.WriteString(",")
				}
			}
			h.sb.WriteString("}")
		}
	default:
		panic(fmt.Sprintf("hash: %T", v))
	}
}

func (h *hasher) frame(fr *Frame) {
	prev := -1
	if fr.prev != nil {
		prev = fr.prev.Index
	}
	fmt.Fprintf(&h.sb, "\n F %s b%d pc%d prev%d r%v d%v:", fr.fn.String(), fr.block.Index, fr.pc, prev, fr.recovering, fr.isDeferred)
	live := liveAt(fr.fn, fr.block, fr.pc)
	for _, p := range fr.fn.Params {
		if live == nil || live[p] {
			h.val(fr.locals[p])
		}
		h.sb.WriteString(";")
	}
	for _, e := range fr.env {
		h.val(e)
		h.sb.WriteString(";")
	}
	for _, b := range fr.fn.Blocks {
		for _, in := range b.Instrs {
			if v, ok := in.(ssa.Value); ok {
				if live != nil && !live[v] {
					continue
				}
				if lv, has := fr.locals[v]; has {
					fmt.Fprintf(&h.sb, "%s=", v.Name())
					h.val(lv)
					h.sb.WriteString(";")
				}
			}
		}
	}
	for _, d := range fr.defers {
		h.sb.WriteString("D:")
		h.val(d.fn)
		for _, a := range d.args {
			h.val(a)
		}
	}
}

func (m *Machine) stateHash(cur *G) [32]byte {
	h := &hasher{cells: map[*Value]int{}, objs: map[interface{}]int{}, m: m}
	if m.ex.ex.cfg.Preempt >= 0 {
		cid := -1
		if cur != nil {
			cid = cur.id
		}
		fmt.Fprintf(&h.sb, "cur=%d pre=%d\n", cid, m.preempt)
	}
	for _, g := range m.gs {
		fmt.Fprintf(&h.sb, "\nG%d st=%d vis=%v on=%s uw=%v", g.id, g.state, g.atVisible, g.blockedOn, g.unwinding)
		for _, p := range g.panics {
			fmt.Fprintf(&h.sb, " P(%s,%v)", p.msg, p.recovered)
		}
		for _, fr := range g.frames {
			h.frame(fr)
		}
	}
	// globals in name order
	var gl []*ssa.Global
	for k := range m.globals {
		gl = append(gl, k)
	}
	sort.Slice(gl, func(i, j int) bool { return gl[i].String() < gl[j].String() })
	for _, k := range gl {
		h.sb.WriteString("\nGL " + k.String() + "=")
		h.cell(m.globals[k])
	}
	type syncE struct {
		id int
		s  string
	}
	var sl []syncE
	for p, w := range m.wgs {
		id, ok := h.cells[p]
		if !ok {
			continue // unreachable WaitGroup
		}
		ws := ""
		for _, g := range w.waiters {
			ws += fmt.Sprintf("g%d,", g.id)
		}
		sl = append(sl, syncE{id, fmt.Sprintf("WG n=%d w=%s", w.n, ws)})
	}
	for p, mu := range m.mus {
		id, ok := h.cells[p]
		if !ok {
			continue
		}
		ws := ""
		for _, g := range mu.waiters {
			ws += fmt.Sprintf("g%d,", g.id)
		}
		for _, g := range mu.rwaiters {
			ws += fmt.Sprintf("r%d,", g.id)
		}
		sl = append(sl, syncE{id, fmt.Sprintf("MU l=%v r=%d w=%s", mu.locked, mu.readers, ws)})
	}
	for p, o := range m.onces {
		id, ok := h.cells[p]
		if !ok {
			continue
		}
		sl = append(sl, syncE{id, fmt.Sprintf("ONCE %v %v", o.done, o.running)})
	}
	for p, b := range m.bufs {
		id, ok := h.cells[p]
		if !ok {
			continue
		}
		hb := &hasher{cells: h.cells, objs: h.objs, m: m}
		for _, x := range *b {
			hb.val(x)
			hb.sb.WriteString(",")
		}
		sl = append(sl, syncE{id, "BUF " + hb.sb.String()})
	}
	sort.Slice(sl, func(i, j int) bool {
		if sl[i].id != sl[j].id {
			return sl[i].id < sl[j].id
		}
		return sl[i].s < sl[j].s
	})
	for _, x := range sl {
		fmt.Fprintf(&h.sb, "\n%d:%s", x.id, x.s)
	}
	fmt.Fprintf(&h.sb, "\nframes=%d events=%v clock=%d", len(m.frames), m.events, m.clock)
	for _, f := range m.frames {
		h.sb.WriteString("|" + f)
	}
	// native per-path objects that define a hash
	var nk []string
	for k := range m.native {
		nk = append(nk, k)
	}
	sort.Strings(nk)
	for _, k := range nk {
		if hs, ok := m.native[k].(interface{ hashInto(h *hasher) }); ok {
			h.sb.WriteString("\nNAT " + k + ":")
			hs.hashInto(h)
		}
	}
	pcs := append([]string{}, m.pc...)
	sort.Strings(pcs)
	last := ""
	for _, c := range pcs {
		if c != last {
			h.sb.WriteString("\nPC:" + c)
		}
		last = c
	}
	var kn []string
	for _, k := range m.known {
		kn = append(kn, k.id+"="+smtBool(k.cond))
	}
	sort.Strings(kn)
	h.sb.WriteString("\nKN:" + strings.Join(kn, ","))
	var rl []string
	for l := range m.reached {
		rl = append(rl, l)
	}
	sort.Strings(rl)
	h.sb.WriteString("\nRE:" + strings.Join(rl, ","))
	if dumpHash != "" {
		dumpN++
		if dumpN%200 == 1 {
			os.WriteFile(fmt.Sprintf("%s_%d.txt", dumpHash, dumpN), []byte(h.sb.String()), 0o644)
		}
	}
	return sha256.Sum256([]byte(h.sb.String()))
}

var dumpHash = os.Getenv("SYMGO_DUMPHASH")
var dumpN int

// ---- liveness (per function, computed once): a value is live at (block, pc) if some instruction
// reachable from there uses it. Dead locals are not hashed, which merges equivalent states.

type liveInfo struct {
	// liveIn[block] = set of values live at entry of block
	liveIn map[*ssa.BasicBlock]map[ssa.Value]bool
}

var liveCache sync.Map   // *ssa.Function -> *liveInfo
var liveAtCache sync.Map // liveKey -> map[ssa.Value]bool

type liveKey struct {
	b  *ssa.BasicBlock
	pc int
}

func computeLive(fn *ssa.Function) *liveInfo {
	li := &liveInfo{liveIn: map[*ssa.BasicBlock]map[ssa.Value]bool{}}
	for _, b := range fn.Blocks {
		li.liveIn[b] = map[ssa.Value]bool{}
	}
	isLocal := func(v ssa.Value) bool {
		switch v.(type) {
		case *ssa.Const, *ssa.Global, *ssa.Function, *ssa.Builtin, *ssa.FreeVar:
			return false
		}
		return v != nil
	}
	changed := true
	for changed {
		changed = false
		for i := len(fn.Blocks) - 1; i >= 0; i-- {
			b := fn.Blocks[i]
			live := map[ssa.Value]bool{}
			for _, s := range b.Succs {
				for v := range li.liveIn[s] {
					live[v] = true
				}
				// phi operands flowing along edge b->s
				for _, in := range s.Instrs {
					phi, ok := in.(*ssa.Phi)
					if !ok {
						break
					}
					for k, p := range s.Preds {
						if p == b && isLocal(phi.Edges[k]) {
							live[phi.Edges[k]] = true
						}
					}
				}
			}
			for j := len(b.Instrs) - 1; j >= 0; j-- {
				in := b.Instrs[j]
				if v, ok := in.(ssa.Value); ok {
					delete(live, v)
				}
				if _, isPhi := in.(*ssa.Phi); isPhi {
					continue
				}
				for _, op := range in.Operands(nil) {
					if *op != nil && isLocal(*op) {
						live[*op] = true
					}
				}
			}
			old := li.liveIn[b]
			if len(old) != len(live) {
				li.liveIn[b] = live
				changed = true
				continue
			}
			for v := range live {
				if !old[v] {
					li.liveIn[b] = live
					changed = true
					break
				}
			}
		}
	}
	return li
}

// liveAt returns the set of values live just before instruction pc of block b (nil = unknown: hash everything)
func liveAt(fn *ssa.Function, b *ssa.BasicBlock, pc int) map[ssa.Value]bool {
	if fn.Recover != nil {
		return nil // conservative: named results are reloaded in the recover block
	}
	if l, ok := liveAtCache.Load(liveKey{b, pc}); ok {
		return l.(map[ssa.Value]bool)
	}
	var li *liveInfo
	if c, ok := liveCache.Load(fn); ok {
		li = c.(*liveInfo)
	} else {
		li = computeLive(fn)
		liveCache.Store(fn, li)
	}
	live := map[ssa.Value]bool{}
	defer func() { liveAtCache.Store(liveKey{b, pc}, live) }()
	for _, s := range b.Succs {
		for v := range li.liveIn[s] {
			live[v] = true
		}
		for _, in := range s.Instrs {
			phi, ok := in.(*ssa.Phi)
			if !ok {
				break
			}
			for k, p := range s.Preds {
				if p == b {
					live[phi.Edges[k]] = true
				}
			}
		}
	}
	for j := len(b.Instrs) - 1; j >= pc; j-- {
		in := b.Instrs[j]
		if v, ok := in.(ssa.Value); ok && j > pc {
			delete(live, v)
		}
		if _, isPhi := in.(*ssa.Phi); isPhi {
			continue
		}
		for _, op := range in.Operands(nil) {
			if *op != nil {
				live[*op] = true
			}
		}
	}
	return live
}
