package main

import (
	"crypto/sha256"
	"fmt"
	"sort"
	"strings"
	"sync"

	"golang.org/x/tools/go/ssa"
)

// Canonical state hashing for the stateful schedule search (DESIGN §2.5): cells are
// numbered in traversal order so that pointer identity and aliasing are part of the hash;
// the path condition is hashed as a sorted, de-duplicated set.

type hasher struct {
	sb    strings.Builder
	cells map[*Value]int
	objs  map[interface{}]int
	m     *Machine
}

func (h *hasher) cell(c *Value) {
	if c == nil {
		h.sb.WriteString("nil")
		return
	}
	if id, ok := h.cells[c]; ok {
		fmt.Fprintf(&h.sb, "@%d", id)
		return
	}
	id := len(h.cells)
	h.cells[c] = id
	fmt.Fprintf(&h.sb, "#%d=", id)
	h.val(*c)
}

func (h *hasher) obj(o interface{}) (int, bool) {
	if id, ok := h.objs[o]; ok {
		return id, true
	}
	id := len(h.objs)
	h.objs[o] = id
	return id, false
}

func (h *hasher) val(v Value) {
	switch v := v.(type) {
	case nil:
		h.sb.WriteString("_")
	case bool, int64, float64:
		fmt.Fprintf(&h.sb, "%v", v)
	case string:
		fmt.Fprintf(&h.sb, "%q", v)
	case *Sym:
		h.sb.WriteString("S(" + v.E + ")")
	case *JSONBlob:
		h.sb.WriteString("J(")
		h.val(v.V)
		h.sb.WriteString(")")
	case *JSONLeaf:
		h.sb.WriteString("JL(" + v.Kind + ":")
		h.val(v.V)
		h.sb.WriteString(")")
	case *StrBlob:
		h.sb.WriteString("SB(")
		h.val(v.S)
		h.sb.WriteString(")")
	case *MapIter:
		fmt.Fprintf(&h.sb, "MI%d(", v.I)
		h.val(v.M)
		h.sb.WriteString(")")
	case *StrIter:
		fmt.Fprintf(&h.sb, "SI%d(%q)", v.I, v.S)
	case *StrNum:
		h.sb.WriteString("N(")
		h.val(v.N)
		h.sb.WriteString(")")
	case *StrAtom:
		h.sb.WriteString("At(" + v.Code.E + ")")
	case *StrCat:
		h.sb.WriteString("Cat(")
		for _, p := range v.Parts {
			h.val(p)
		}
		h.sb.WriteString(")")
	case Ptr:
		h.sb.WriteString("P")
		h.cell(v)
	case Struct:
		h.sb.WriteString("{")
		for i := range v {
			h.cell(&v[i])
			h.sb.WriteString(",")
		}
		h.sb.WriteString("}")
	case Array:
		h.sb.WriteString("A[")
		for i := range v {
			h.cell(&v[i])
			h.sb.WriteString(",")
		}
		h.sb.WriteString("]")
	case Tuple:
		h.sb.WriteString("T(")
		for i := range v {
			h.val(v[i])
			h.sb.WriteString(",")
		}
		h.sb.WriteString(")")
	case *SliceV:
		if v == nil || v.Nil {
			h.sb.WriteString("nilslice")
			return
		}
		fmt.Fprintf(&h.sb, "L%d/%d[", len(v.A), cap(v.A))
		full := v.A[:cap(v.A)]
		for i := range full {
			h.cell(&full[i])
			h.sb.WriteString(",")
		}
		h.sb.WriteString("]")
	case *MapV:
		if v == nil {
			h.sb.WriteString("nilmap")
			return
		}
		id, seen := h.obj(v)
		fmt.Fprintf(&h.sb, "M%d", id)
		if !seen {
			h.sb.WriteString("{")
			for i := range v.Keys {
				h.val(v.Keys[i])
				h.sb.WriteString(":")
				h.cell(&v.Vals[i])
				h.sb.WriteString(",")
			}
			h.sb.WriteString("}")
		}
	case Iface:
		if v.T == nil {
			h.sb.WriteString("I(nil)")
			return
		}
		h.sb.WriteString("I(" + v.T.String() + ":")
		h.val(v.V)
		h.sb.WriteString(")")
	case *Closure:
		if v == nil {
			h.sb.WriteString("nilfn")
			return
		}
		h.sb.WriteString("C(" + v.Fn.String())
		for _, e := range v.Env {
			h.val(e)
			h.sb.WriteString(",")
		}
		h.sb.WriteString(")")
	case *ssa.Function:
		if v == nil {
			h.sb.WriteString("nilfn")
			return
		}
		h.sb.WriteString("F(" + v.String() + ")")
	case *ssa.Builtin:
		h.sb.WriteString("B(" + v.Name() + ")")
	case *Opaque:
		if v == nil {
			h.sb.WriteString("nilopq")
			return
		}
		id, seen := h.obj(v)
		fmt.Fprintf(&h.sb, "O%d:%s", id, v.Kind)
		if !seen {
			if hs, ok := v.X.(interface{ hashInto(h *hasher) }); ok {
				hs.hashInto(h)
			}
		}
	case *Chan:
		if v == nil {
			h.sb.WriteString("nilchan")
			return
		}
		id, seen := h.obj(v)
		fmt.Fprintf(&h.sb, "Ch%d", id)
		if !seen {
			fmt.Fprintf(&h.sb, "{c=%v cap=%d buf=", v.Closed, v.Cap)
			for _, b := range v.Buf {
				h.val(b)
				h.sb.WriteString(",")
			}
			h.sb.WriteString(" rq=")
			for _, w := range v.RecvQ {
				if !(w.Done || (w.Sel != nil && w.Sel.Fired)) {
					fmt.Fprintf(&h.sb, "g%d/%d,", w.G.id, w.CaseIdx)
				}
			}
			h.sb.WriteString(" sq=")
			for _, w := range v.SendQ {
				if !(w.Done || (w.Sel != nil && w.Sel.Fired)) {
					fmt.Fprintf(&h.sb, "g%d/%d:", w.G.id, w.CaseIdx)
					h.val(w.Val)
					h.sb.WriteString(",")
				}
			}
			h.sb.WriteString("}")
		}
	default:
		panic(fmt.Sprintf("hash: %T", v))
	}
}

func (h *hasher) frame(fr *Frame) {
	prev := -1
	if fr.prev != nil {
		prev = fr.prev.Index
	}
	fmt.Fprintf(&h.sb, "\n F %s b%d pc%d prev%d r%v d%v:", fr.fn.String(), fr.block.Index, fr.pc, prev, fr.recovering, fr.isDeferred)
	live := liveAt(fr.fn, fr.block, fr.pc)
	for _, p := range fr.fn.Params {
		if live == nil || live[p] {
			h.val(fr.locals[p])
		}
		h.sb.WriteString(";")
	}
	for _, e := range fr.env {
		h.val(e)
		h.sb.WriteString(";")
	}
	for _, b := range fr.fn.Blocks {
		for _, in := range b.Instrs {
			if v, ok := in.(ssa.Value); ok {
				if live != nil && !live[v] {
					continue
				}
				if lv, has := fr.locals[v]; has {
					fmt.Fprintf(&h.sb, "%s=", v.Name())
					h.val(lv)
					h.sb.WriteString(";")
				}
			}
		}
	}
	for _, d := range fr.defers {
		h.sb.WriteString("D:")
		h.val(d.fn)
		for _, a := range d.args {
			h.val(a)
		}
	}
}

func (m *Machine) stateHash(cur *G) [32]byte {
	h := &hasher{cells: map[*Value]int{}, objs: map[interface{}]int{}, m: m}
	if m.ex.ex.cfg.Preempt >= 0 {
		cid := -1
		if cur != nil {
			cid = cur.id
		}
		fmt.Fprintf(&h.sb, "cur=%d pre=%d\n", cid, m.preempt)
	}
	for _, g := range m.gs {
		fmt.Fprintf(&h.sb, "\nG%d st=%d vis=%v on=%s uw=%v", g.id, g.state, g.atVisible, g.blockedOn, g.unwinding)
		for _, p := range g.panics {
			fmt.Fprintf(&h.sb, " P(%s,%v)", p.msg, p.recovered)
		}
		for _, fr := range g.frames {
			h.frame(fr)
		}
	}
	// globals in name order
	var gl []*ssa.Global
	for k := range m.globals {
		gl = append(gl, k)
	}
	sort.Slice(gl, func(i, j int) bool { return gl[i].String() < gl[j].String() })
	for _, k := range gl {
		h.sb.WriteString("\nGL " + k.String() + "=")
		h.cell(m.globals[k])
	}
	type syncE struct {
		id int
		s  string
	}
	var sl []syncE
	for p, w := range m.wgs {
		id, ok := h.cells[p]
		if !ok {
			continue // unreachable WaitGroup
		}
		ws := ""
		for _, g := range w.waiters {
			ws += fmt.Sprintf("g%d,", g.id)
		}
		sl = append(sl, syncE{id, fmt.Sprintf("WG n=%d w=%s", w.n, ws)})
	}
	for p, mu := range m.mus {
		id, ok := h.cells[p]
		if !ok {
			continue
		}
		ws := ""
		for _, g := range mu.waiters {
			ws += fmt.Sprintf("g%d,", g.id)
		}
		for _, g := range mu.rwaiters {
			ws += fmt.Sprintf("r%d,", g.id)
		}
		sl = append(sl, syncE{id, fmt.Sprintf("MU l=%v r=%d w=%s", mu.locked, mu.readers, ws)})
	}
	for p, o := range m.onces {
		id, ok := h.cells[p]
		if !ok {
			continue
		}
		sl = append(sl, syncE{id, fmt.Sprintf("ONCE %v %v", o.done, o.running)})
	}
	for p, b := range m.bufs {
		id, ok := h.cells[p]
		if !ok {
			continue
		}
		hb := &hasher{cells: h.cells, objs: h.objs, m: m}
		for _, x := range *b {
			hb.val(x)
			hb.sb.WriteString(",")
		}
		sl = append(sl, syncE{id, "BUF " + hb.sb.String()})
	}
	sort.Slice(sl, func(i, j int) bool {
		if sl[i].id != sl[j].id {
			return sl[i].id < sl[j].id
		}
		return sl[i].s < sl[j].s
	})
	for _, x := range sl {
		fmt.Fprintf(&h.sb, "\n%d:%s", x.id, x.s)
	}
	fmt.Fprintf(&h.sb, "\nframes=%d events=%v clock=%d", len(m.frames), m.events, m.clock)
	for _, f := range m.frames {
		h.sb.WriteString("|" + f)
	}
	// native per-path objects that define a hash
	var nk []string
	for k := range m.native {
		nk = append(nk, k)
	}
	sort.Strings(nk)
	for _, k := range nk {
		if hs, ok := m.native[k].(interface{ hashInto(h *hasher) }); ok {
			h.sb.WriteString("\nNAT " + k + ":")
			hs.hashInto(h)
		}
	}
	pcs := append([]string{}, m.pc...)
	sort.Strings(pcs)
	last := ""
	for _, c := range pcs {
		if c != last {
			h.sb.WriteString("\nPC:" + c)
		}
		last = c
	}
	var kn []string
	for _, k := range m.known {
		kn = append(kn, k.id+"="+smtBool(k.cond))
	}
	sort.Strings(kn)
	h.sb.WriteString("\nKN:" + strings.Join(kn, ","))
	var rl []string
	for l := range m.reached {
		rl = append(rl, l)
	}
	sort.Strings(rl)
	h.sb.WriteString("\nRE:" + strings.Join(rl, ","))
	return sha256.Sum256([]byte(h.sb.String()))
}


// ---- liveness (per function, computed once): a value is live at (block, pc) if some instruction
// reachable from there uses it. Dead locals are not hashed, which merges equivalent states.

type liveInfo struct {
	// liveIn[block] = set of values live at entry of block
	liveIn map[*ssa.BasicBlock]map[ssa.Value]bool
	at     map[liveKey]map[ssa.Value]bool
}

var liveCache = struct {
	mu sync.Mutex
	m  map[*ssa.Function]*liveInfo
}{m: map[*ssa.Function]*liveInfo{}}

type liveKey struct {
	b  *ssa.BasicBlock
	pc int
}

func computeLive(fn *ssa.Function) *liveInfo {
	li := &liveInfo{liveIn: map[*ssa.BasicBlock]map[ssa.Value]bool{}}
	for _, b := range fn.Blocks {
		li.liveIn[b] = map[ssa.Value]bool{}
	}
	isLocal := func(v ssa.Value) bool {
		switch v.(type) {
		case *ssa.Const, *ssa.Global, *ssa.Function, *ssa.Builtin, *ssa.FreeVar:
			return false
		}
		return v != nil
	}
	changed := true
	for changed {
		changed = false
		for i := len(fn.Blocks) - 1; i >= 0; i-- {
			b := fn.Blocks[i]
			live := map[ssa.Value]bool{}
			for _, s := range b.Succs {
				for v := range li.liveIn[s] {
					live[v] = true
				}
				// phi operands flowing along edge b->s
				for _, in := range s.Instrs {
					phi, ok := in.(*ssa.Phi)
					if !ok {
						break
					}
					for k, p := range s.Preds {
						if p == b && isLocal(phi.Edges[k]) {
							live[phi.Edges[k]] = true
						}
					}
				}
			}
			for j := len(b.Instrs) - 1; j >= 0; j-- {
				in := b.Instrs[j]
				if v, ok := in.(ssa.Value); ok {
					delete(live, v)
				}
				if _, isPhi := in.(*ssa.Phi); isPhi {
					continue
				}
				for _, op := range in.Operands(nil) {
					if *op != nil && isLocal(*op) {
						live[*op] = true
					}
				}
			}
			old := li.liveIn[b]
			if len(old) != len(live) {
				li.liveIn[b] = live
				changed = true
				continue
			}
			for v := range live {
				if !old[v] {
					li.liveIn[b] = live
					changed = true
					break
				}
			}
		}
	}
	return li
}

// liveAt returns the set of values live just before instruction pc of block b (nil = unknown: hash everything)
func liveAt(fn *ssa.Function, b *ssa.BasicBlock, pc int) map[ssa.Value]bool {
	if fn.Recover != nil {
		return nil // conservative: named results are reloaded in the recover block
	}
	liveCache.mu.Lock()
	defer liveCache.mu.Unlock()
	li := liveCache.m[fn]
	if li == nil {
		li = computeLive(fn)
		li.at = map[liveKey]map[ssa.Value]bool{}
		liveCache.m[fn] = li
	}
	if l, ok := li.at[liveKey{b, pc}]; ok {
		return l
	}
	live := map[ssa.Value]bool{}
	defer func() { li.at[liveKey{b, pc}] = live }()
	for _, s := range b.Succs {
		for v := range li.liveIn[s] {
			live[v] = true
		}
		for _, in := range s.Instrs {
			phi, ok := in.(*ssa.Phi)
			if !ok {
				break
			}
			for k, p := range s.Preds {
				if p == b {
					live[phi.Edges[k]] = true
				}
			}
		}
	}
	for j := len(b.Instrs) - 1; j >= pc; j-- {
		in := b.Instrs[j]
		if v, ok := in.(ssa.Value); ok && j > pc {
			delete(live, v)
		}
		if _, isPhi := in.(*ssa.Phi); isPhi {
			continue
		}
		for _, op := range in.Operands(nil) {
			if *op != nil {
				live[*op] = true
			}
		}
	}
	return live
}
