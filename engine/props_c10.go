package main

func init() {
	files := []string{"root/fed.go", "root/c01.go", "root/c10.go"}
	fns := append([]string{"queryer.(*MultiOpQueryer).Query", "queryer.(*MultiOpQueryer).queryBatch", "queryer.(*MultiOpQueryer).fetch", "queryer.(*MultiOpQueryer).sendRequest", "gqlerrors.ExtendErrorList", "gqlerrors.FormatError"}, pipelineFns...)
	reg(&Property{
		ID:    "C10",
		Title: "Invalid operations never reach a service; service errors reach the client intact",
		Kernels: []Kernel{
			{Name: "invalid-operations", Pkg: ".", Files: files, Entry: "VerifInvalidOperations", Mode: "seq", Native: true,
				Reach: []string{"invalid next to valid", "invalid alone"}, Functions: fns},
			{Name: "service-errors", Pkg: ".", Files: files, Entry: "VerifServiceErrors", Mode: "seq", Native: true,
				Reach: []string{"child step failed", "root step failed", "chunked downstream calls", "same message twice", "two failed requests in one batch"}, Functions: fns},
			{Name: "two-services-fail", Pkg: ".", Files: files, Entry: "VerifTwoServicesFail", Mode: "seq", Native: true,
				Reach: []string{"two services failed", "same message from two services"}, Functions: fns},
			// the same over a subscription: an upstream event that carries errors (alone, or next to partial data that
			// the gateway completes from other services) reaches the client with message, extensions and path
			{Name: "subscription-event-errors", Pkg: ".", Files: []string{"root/fed.go", "root/c01.go", "root/ws.go", "root/c17.go"}, Entry: "VerifEvents", Mode: "seq",
				Quick: map[string]int{"maxsubs": 1, "maxevents": 2, "quickmerge": 0}, Thorough: map[string]int{"maxsubs": 2, "maxevents": 2, "quickmerge": 0},
				Reach: []string{"events checked"}, Functions: []string{"(*subscriptionEntry).Listen", "(*subscriptionEntry).prepareResponse", "(*Gateway).newSubscriptionEntry$1 (executorFn)"}},
		},
		Assume: []string{
			"gqlparser's validator decides validity natively; the 14 invalid operations are mutations of valid ones (unknown field/type/argument, wrong variable type, fragment cycle, ambiguous / unknown operation, syntax error, missing selection / argument, unused fragment / variable, subscription without root)",
			"the gateway reaches the fake services through the real MultiOpQueryer; net/http is the harness transport, encoding/json the abstract codec",
			"error messages are string atoms, extension members symbolic integers",
			"two-services-fail: two services fail in the same plan level (two root steps, or two child steps of one root step) with messages that may coincide",
		},
		Outside: []string{"invalid operations beyond the list", "more than two errors per answer", "error payloads with members other than message/extensions/path/locations"},
	})
}
