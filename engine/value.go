package main

import (
	"fmt"
	"go/types"
	"strings"

	"golang.org/x/tools/go/ssa"
)

// Value is any interpreter value.
//
//	concrete scalars: bool, int64 (every integer kind), float64, string
//	symbolic scalars: *Sym (Bool | Int), *StrNum / *StrAtom / *StrCat (structured string tokens), *SymStr (SMT string)
//	aggregates:       Ptr, Struct, Array, *SliceV, *MapV, Iface, *Closure, *ssa.Function, *ssa.Builtin, *Chan, Tuple
type Value interface{}

// Ptr is a pointer to a heap cell. Cells are native Go words so that pointers
// into structs, arrays and slice backing stores are native interior pointers.
type Ptr *Value

type Struct []Value
type Array []Value
type Tuple []Value

// SliceV models a Go slice: A is a native slice whose len/cap ARE the modelled
// len/cap (the backing store is shared exactly as in Go); Nil distinguishes
// nil from empty.
type SliceV struct {
	A   []Value
	Nil bool
}

// MapV is an insertion-ordered association list (keys may be symbolic).
type MapV struct {
	Keys []Value
	Vals []Value
	sidx map[string]int // index for concrete string keys (valid iff non-nil)
}

type Iface struct {
	T types.Type
	V Value
}

type Closure struct {
	Fn  *ssa.Function
	Env []Value
}

type Waiter struct {
	G       *G
	Val     Value // for senders
	Sel     *SelState
	CaseIdx int
	IsSend  bool
	Done    bool
}

type SelState struct {
	Fired bool
	Instr *ssa.Select
}

type Chan struct {
	ID     int
	Buf    []Value
	Cap    int
	Closed bool
	RecvQ  []*Waiter
	SendQ  []*Waiter
	Elem   types.Type
	vc     []int // vector clock carried by the channel (race detector)
	bufVC  [][]int
}

// Opaque is an engine-native object handed to the interpreted program as an
// opaque handle (http request/response models, multipart writers, ...).
type Opaque struct {
	Kind string
	X    interface{}
}

func newCell(v Value) Ptr {
	c := new(Value)
	*c = v
	return c
}

func isIntBasic(b *types.Basic) bool { return b.Info()&types.IsInteger != 0 }

func zero(t types.Type) Value {
	switch t := t.Underlying().(type) {
	case *types.Basic:
		switch {
		case t.Info()&types.IsBoolean != 0:
			return false
		case t.Info()&types.IsInteger != 0:
			return int64(0)
		case t.Info()&types.IsString != 0:
			return ""
		case t.Info()&types.IsFloat != 0:
			return float64(0)
		case t.Kind() == types.UnsafePointer:
			return Ptr(nil)
		case t.Kind() == types.UntypedNil:
			return nil
		}
		panic("zero: basic " + t.String())
	case *types.Pointer:
		return Ptr(nil)
	case *types.Struct:
		s := make(Struct, t.NumFields())
		for i := range s {
			s[i] = zero(t.Field(i).Type())
		}
		return s
	case *types.Array:
		a := make(Array, t.Len())
		for i := range a {
			a[i] = zero(t.Elem())
		}
		return a
	case *types.Slice:
		return &SliceV{Nil: true}
	case *types.Map:
		return (*MapV)(nil)
	case *types.Interface:
		return Iface{}
	case *types.Signature:
		return (*Closure)(nil)
	case *types.Chan:
		return (*Chan)(nil)
	case *types.Tuple:
		tu := make(Tuple, t.Len())
		for i := range tu {
			tu[i] = zero(t.At(i).Type())
		}
		return tu
	case *types.TypeParam:
		panic("zero: uninstantiated type parameter " + t.String())
	}
	panic(fmt.Sprintf("zero: %T %v", t, t))
}

// copyVal copies aggregate values (value semantics for struct/array)
func copyVal(v Value) Value {
	switch v := v.(type) {
	case Struct:
		c := make(Struct, len(v))
		for i := range v {
			c[i] = copyVal(v[i])
		}
		return c
	case Array:
		c := make(Array, len(v))
		for i := range v {
			c[i] = copyVal(v[i])
		}
		return c
	}
	return v
}

// assign stores v into cell dst keeping interior pointers into an existing
// struct/array valid (Go semantics: *p = T{...} overwrites in place).
func assign(dst *Value, v Value) {
	switch v := v.(type) {
	case Struct:
		if d, ok := (*dst).(Struct); ok && len(d) == len(v) {
			for i := range v {
				assign(&d[i], v[i])
			}
			return
		}
		*dst = copyVal(v)
	case Array:
		if d, ok := (*dst).(Array); ok && len(d) == len(v) {
			for i := range v {
				assign(&d[i], v[i])
			}
			return
		}
		*dst = copyVal(v)
	default:
		*dst = v
	}
}

func (mp *MapV) find(m *Machine, k Value) int {
	if mp == nil {
		return -1
	}
	if m == nil { // construction of fresh maps by the engine: keys are distinct
		return -1
	}
	if s, ok := k.(string); ok && mp.sidx != nil {
		if i, ok := mp.sidx[s]; ok {
			return i
		}
		return -1
	}
	for i, kk := range mp.Keys {
		if m.truth(m.eqVal(kk, k)) {
			return i
		}
	}
	return -1
}

func (mp *MapV) reindex() {
	mp.sidx = map[string]int{}
	for i, k := range mp.Keys {
		s, ok := k.(string)
		if !ok {
			mp.sidx = nil
			return
		}
		mp.sidx[s] = i
	}
}

func (mp *MapV) set(m *Machine, k, v Value) {
	if m != nil {
		m.touchObj(mp)
	}
	if i := mp.find(m, k); i >= 0 {
		mp.Vals[i] = v
		return
	}
	mp.Keys = append(mp.Keys, k)
	mp.Vals = append(mp.Vals, v)
	if s, ok := k.(string); ok {
		if mp.sidx != nil || len(mp.Keys) == 1 {
			if mp.sidx == nil {
				mp.sidx = map[string]int{}
			}
			mp.sidx[s] = len(mp.Keys) - 1
		}
	} else {
		mp.sidx = nil
	}
}

func (mp *MapV) del(m *Machine, k Value) {
	if m != nil {
		m.touchObj(mp)
	}
	i := mp.find(m, k)
	if i < 0 {
		return
	}
	mp.Keys = append(append([]Value{}, mp.Keys[:i]...), mp.Keys[i+1:]...)
	mp.Vals = append(append([]Value{}, mp.Vals[:i]...), mp.Vals[i+1:]...)
	if mp.sidx != nil {
		mp.reindex()
	}
}

func show(v Value) string {
	switch v := v.(type) {
	case nil:
		return "<nil>"
	case *Sym:
		return "sym(" + v.E + ")"
	case *StrNum:
		return "itoa(" + show(v.N) + ")"
	case *StrAtom:
		return "atom(" + v.Name + ")"
	case *StrCat:
		var sb strings.Builder
		for i, p := range v.Parts {
			if i > 0 {
				sb.WriteString("+")
			}
			sb.WriteString(show(p))
		}
		return sb.String()
	case Struct:
		var sb strings.Builder
		sb.WriteString("{")
		for i, f := range v {
			if i > 0 {
				sb.WriteString(" ")
			}
			sb.WriteString(show(f))
		}
		sb.WriteString("}")
		return sb.String()
	case *SliceV:
		if v == nil || v.Nil {
			return "[]nil"
		}
		var sb strings.Builder
		sb.WriteString("[")
		for i, f := range v.A {
			if i > 0 {
				sb.WriteString(" ")
			}
			if i > 8 {
				sb.WriteString("...")
				break
			}
			sb.WriteString(show(f))
		}
		sb.WriteString("]")
		return sb.String()
	case *MapV:
		if v == nil {
			return "map(nil)"
		}
		var sb strings.Builder
		sb.WriteString("map[")
		for i := range v.Keys {
			if i > 0 {
				sb.WriteString(" ")
			}
			if i > 8 {
				sb.WriteString("...")
				break
			}
			sb.WriteString(show(v.Keys[i]) + ":" + show(v.Vals[i]))
		}
		sb.WriteString("]")
		return sb.String()
	case Iface:
		if v.T == nil {
			return "nil"
		}
		switch v.V.(type) {
		case string, int64, bool, float64, *Sym:
			return show(v.V)
		case Ptr:
			p := v.V.(Ptr)
			if p != nil {
				if s, ok := (*p).(Struct); ok && len(s) == 1 {
					if str, ok := s[0].(string); ok { // *errors.errorString and friends
						return "&{" + str + "}"
					}
				}
			}
		}
		return "iface(" + v.T.String() + ")"
	case Ptr:
		if v == nil {
			return "nilptr"
		}
		return "ptr"
	case string:
		return fmt.Sprintf("%q", v)
	}
	return fmt.Sprintf("%v", v)
}
