package main

func init() {
	reg(&Property{
		ID:    "C19",
		Title: "File uploads arrive at the owning service unchanged",
		Kernels: []Kernel{
			{Name: "uploads", Pkg: ".", Files: []string{"root/fed.go", "root/c01.go", "root/c02.go", "root/c10.go", "root/c19.go"}, Entry: "VerifUploads", Mode: "seq", Race: true,
				Reach:     []string{"batched upload", "single upload"},
				Known:     []string{"C19-one-file-for-two-services"},
				Functions: []string{"requests.Parse (multipart branch)", "requests.(*ParseRequestResponse).injectFile", "executor.(*DepthExecutor).getVariables", "queryer.extractFiles", "queryer.(*UploadMap).extract/Add/Map", "queryer.prepareMultipart", "queryer.(*MultiOpQueryer).fetchFile", "queryer.(*MultiOpQueryer).queryBatch", "queryer.(*MultiOpQueryer).sendMultipartRequest"}},
		},
		Assume: []string{
			"mime/multipart is modelled on both sides: the incoming request carries an already parsed form (fields + file parts), the outgoing multipart.Writer builds a tree of parts; io.Copy drains the file object (a second copy of the same reader yields nothing, as in Go)",
			"gqlparser native; canonical schedule; JSON = abstract codec",
		},
		Outside: []string{"byte-level multipart encoding", "layouts beyond the six cases (top-level, nested object, list, two services, unused by one service, one file at two paths) x single/batch"},
	})
}
