package main

import (
	"fmt"
	"strings"
	"sync"

	"golang.org/x/tools/go/ssa"
)

type MapIter struct {
	M        *MapV
	Keys     []Value // snapshot of keys at range start, not yet visited
	I        int
	deviated bool
}

type StrIter struct {
	S string
	I int
}

func (m *Machine) rangeOp(fr *Frame, in *ssa.Range) {
	x := m.get(fr, in.X)
	switch x := x.(type) {
	case *MapV:
		it := &MapIter{M: x}
		if x != nil {
			it.Keys = append(it.Keys, x.Keys...)
		}
		// order-symbolic mode: this range may run in another order (reversed, rotated by one)
		if K := m.ex.ex.cfg.MapOrder; K > 0 && len(it.Keys) > 1 && m.divergences < K && !m.inHarness(in) {
			switch m.ex.choose(m, 3, "map order") {
			case 1:
				m.divergences++
				m.events = append(m.events, "map range at "+m.pos(in)+" runs in reversed order")
				for i, j := 0, len(it.Keys)-1; i < j; i, j = i+1, j-1 {
					it.Keys[i], it.Keys[j] = it.Keys[j], it.Keys[i]
				}
			case 2:
				m.divergences++
				m.events = append(m.events, "map range at "+m.pos(in)+" runs rotated by one")
				it.Keys = append(it.Keys[1:], it.Keys[0])
			}
		}
		m.setResult(fr, in, it)
	case string:
		m.setResult(fr, in, &StrIter{S: x})
	default:
		m.fail("unsupported", fmt.Sprintf("range over %T", x))
	}
}

func (m *Machine) nextOp(g *G, fr *Frame, in *ssa.Next) {
	switch it := m.get(fr, in.Iter).(type) {
	case *MapIter:
		if it.M != nil {
			m.raceReadObj(g, it.M, in)
		}
		for len(it.Keys) > 0 {
			pick := 0
			k := it.Keys[pick]
			it.Keys = append(append([]Value{}, it.Keys[:pick]...), it.Keys[pick+1:]...)
			it.I++
			// entries deleted during iteration are not visited
			if j := it.M.find(m, k); j >= 0 {
				m.setResult(fr, in, Tuple{true, k, copyVal(it.M.Vals[j])})
				return
			}
		}
		m.setResult(fr, in, Tuple{false, nil, nil})
	case *StrIter:
		if it.I >= len(it.S) {
			m.setResult(fr, in, Tuple{false, int64(0), int64(0)})
			return
		}
		for _, r := range it.S[it.I:] {
			idx := it.I
			it.I += len(string(r))
			if r == 0xFFFD { // invalid byte: advance by one
				it.I = idx + 1
				if len(it.S) >= idx+3 && it.S[idx:idx+3] == "�" {
					it.I = idx + 3
				}
			}
			m.setResult(fr, in, Tuple{true, int64(idx), int64(r)})
			return
		}
	default:
		m.fail("unsupported", "next on unknown iter")
	}
}

// inHarness: the instruction belongs to a harness overlay file (order-symbolic ranges apply to the code under test only)
func (m *Machine) inHarness(in ssa.Instruction) bool {
	if in == nil || in.Parent() == nil {
		return false
	}
	f := in.Parent()
	for f.Parent() != nil {
		f = f.Parent()
	}
	if v, ok := harnessFnCache.Load(f); ok {
		return v.(bool)
	}
	p := m.prog.Fset.Position(f.Pos())
	is := strings.Contains(p.Filename, "zz_verif_")
	harnessFnCache.Store(f, is)
	return is
}

var harnessFnCache sync.Map
