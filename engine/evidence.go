package main

import (
	"encoding/json"
	"fmt"
	"os"
	"path/filepath"
	"time"
)

func writeEvidence(p *Property, tier string, seed int64, rs []*KernelResult, l *loaded, nviol int, wall time.Duration) {
	var states, trans, obls, queries, sat, unsat, unknown int64
	var solverS float64
	exhaustive := true
	var samples []interface{}
	var fns []string
	seenFn := map[string]bool{}
	validated := 0
	assume := append([]string{}, p.Assume...)
	for _, r := range rs {
		states += r.States
		trans += r.Steps
		obls += r.Obligations
		queries += r.Queries["total"]
		sat += r.Queries["sat"]
		unsat += r.Queries["unsat"]
		unknown += r.Queries["unknown"]
		solverS += r.SolverTimeS
		if !r.Exhaustive {
			exhaustive = false
		}
		for i, s := range r.Samples {
			if i < 2 {
				samples = append(samples, map[string]interface{}{"kernel": r.Kernel, "decision_vector": s.Decisions, "model": s.Model, "end": s.End, "ssa_instructions": s.Steps, "events": s.Events})
			}
		}
		for _, f := range r.Functions {
			if !seenFn[f] {
				seenFn[f] = true
				fns = append(fns, f)
			}
		}
		for _, a := range r.Assumptions {
			assume = append(assume, r.Kernel+": "+a)
		}
		validated += r.NativeValidated
	}
	if states < 1 {
		states = 1
	}
	if trans < 1 {
		trans = 1
	}
	if len(samples) == 0 {
		samples = append(samples, "no path completed")
	}
	for _, o := range p.Outside {
		assume = append(assume, "outside the claim: "+o)
	}
	ev := map[string]interface{}{
		"property_id": p.ID,
		"tier":        tier,
		"seed":        seed,
		"level":       "model_checking",
		"wall_s":      wall.Seconds(),
		"violations":  nviol,
		"assumptions": assume,
		"coverage": map[string]interface{}{
			"states":                        states,
			"transitions":                   trans,
			"traces_validated_against_impl": validated,
			"samples":                       samples,
			"exhaustive":                    exhaustive,
			"obligations":                   obls,
			"discharged":                    obls,
			"technique":                     "bounded symbolic execution of the Go SSA of /repo (go/ssa, regenerated per run) with SMT feasibility/obligation queries",
			"solver":                        map[string]interface{}{"queries": queries, "sat": sat, "unsat": unsat, "unknown": unknown, "time_s": solverS, "back_ends": "z3 4.8.12 (-in, push/pop); cvc5 1.0 for string kernels; z3-new 5.1.0 cross-check in thorough tier"},
			"functions_encoded":             fns,
			"kernels":                       rs,
			"load_s":                        l.tLoad.Seconds(),
			"explanation":                   fmt.Sprintf("states = explored path prefixes / distinct scheduler states; transitions = SSA instructions interpreted; %d kernels", len(rs)),
		},
	}
	b, _ := json.MarshalIndent(ev, "", " ")
	dir := filepath.Join(verifRoot, "evidence")
	os.MkdirAll(dir, 0o755)
	if err := os.WriteFile(filepath.Join(dir, p.ID+".json"), b, 0o644); err != nil {
		fmt.Fprintln(os.Stderr, "evidence:", err)
	}
}
