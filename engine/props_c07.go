package main

func init() {
	reg(&Property{
		ID:    "C07",
		Title: "Every HTTP request gets a well-formed response; none can crash the gateway",
		Kernels: []Kernel{
			{Name: "parseRequest", Pkg: "requests", Files: []string{"requests/c07.go"}, Entry: "VerifParseRequest", Mode: "seq", Native: true,
				Quick: map[string]int{"maxlen": 2}, Thorough: map[string]int{"maxlen": 3},
				Reach:     []string{"rejected", "accepted batch", "accepted single"},
				Functions: []string{"requests.parseRequest", "requests.IsBatchMode"}},
			{Name: "injectFile", Pkg: "requests", Files: []string{"requests/c07.go"}, Entry: "VerifInjectFile", Mode: "seq", Native: true,
				Quick: map[string]int{"maxseg": 5}, Thorough: map[string]int{"maxseg": 6},
				Reach:     []string{"path rejected", "upload injected"},
				Functions: []string{"requests.(*ParseRequestResponse).injectFile"}},
			{Name: "handler-corners", Pkg: ".", Files: []string{"root/fed.go", "root/c01.go", "root/c16.go", "root/c07k3.go"}, Entry: "VerifHandlerCorners", Mode: "seq", Native: true,
				Quick: map[string]int{"unwind": 100000}, Thorough: map[string]int{"unwind": 100000},
				Reach:     []string{"corner operation answered", "corner operation inside a batch", "corner operation served from the plan cache"},
				Functions: []string{"(*Gateway).Handler", "(*Gateway).queryHandler", "(*Gateway).parseIntrospectionQuery", "introspection.(*IntrospectionResolver).*", "planner.SequentialPlanner.Plan", "planner.sanitizeSelectionSet", "executor.ParallelExecutor.Execute"}},
		},
		Assume: []string{
			"encoding/json replaced by the abstract codec; concrete bodies are parsed by the real encoding/json into a tree first, typed decoding follows go/types struct tags",
			"path segments are structured tokens: decimal numeral of symbolic value in [-2,3], the word variables, existing / missing keys, the empty string",
		},
		Outside: []string{"handler-corners: 15 unusual but valid operations (root __typename, node without fragment, unknown id, introspection with null / absent / mistyped includeDeprecated, fragments on Node, input objects with empty and null lists) on the interface/union/enum/input scenario schema", "arbitrary byte strings (bodies are renderings of JSON shapes with optional garbage prefix)", "mime/multipart parsing", "socket-level behaviour"},
	})
}
