package main

func init() {
	files := []string{"root/fed.go", "root/c01.go", "root/c02.go"}
	reg(&Property{
		ID:    "C02",
		Title: "Every sub-request is valid for, and owned by, the service it is sent to",
		Kernels: []Kernel{
			{Name: "subrequests", Pkg: ".", Files: files, Entry: "VerifSubRequests", Mode: "seq", Native: true,
				Quick: map[string]int{"k": 1}, Thorough: map[string]int{"k": 2},
				Reach: []string{"operation translated"}, Functions: pipelineFns,
				Known: []string{"C02-node-without-fragment", "C02-response-key-id-taken", "C02-abs-interface-field-plus-fragment", "C02-abs-fragment-on-interface", "C02-abs-fragment-on-one-implementer"}},
		},
		Assume: []string{
			"gqlparser runs natively on concrete strings (sub-requests are validated by the real validator against the service's own schema)",
			"lists in the world are non-empty so that every child step of the translation is actually issued",
			"one canonical goroutine schedule; encoding/json = abstract codec",
		},
		Outside: []string{"schemas and operations beyond the scenario list"},
	})
	reg(&Property{
		ID:    "C06",
		Title: "Each mutation root field reaches its owning service exactly once",
		Kernels: []Kernel{
			{Name: "mutations", Pkg: ".", Files: files, Entry: "VerifMutations", Mode: "seq", Native: true,
				Reach: []string{"with a downstream failure", "healthy"}, Functions: pipelineFns},
			// the same under other iteration orders of the planner's maps (the order of the root steps of a plan
			// follows a map; what is done to a plan that the cache hands out again may depend on it)
			{Name: "mutations-map-orders", Pkg: ".", Files: files, Entry: "VerifMutations", Mode: "seq",
				Quick: map[string]int{"maporder": 1, "healthyonly": 1}, Thorough: map[string]int{"maporder": 2, "healthyonly": 1, "budget_s": 7200},
				Reach: []string{"healthy"}, Functions: pipelineFns},
			// below the executor: one Query call of the real HTTP client is one POST, whatever status and body
			// come back (a retry would execute the mutation twice)
			{Name: "one-post-per-call", Pkg: "queryer", Files: []string{"queryer/c09.go"}, Entry: "VerifDownstreamAnswers", Mode: "seq",
				Quick: map[string]int{"nmax": 2}, Thorough: map[string]int{"nmax": 3},
				Reach:     []string{"failure signal", "answer accepted"},
				Functions: []string{"queryer.(*MultiOpQueryer).Query", "queryer.(*MultiOpQueryer).queryBatch", "queryer.(*MultiOpQueryer).fetch", "queryer.(*MultiOpQueryer).sendQueryRequest", "queryer.(*MultiOpQueryer).sendRequest"}},
			// a request that carries a file (a mutation, as a rule) travels in exactly one HTTP call, also when that call fails
			{Name: "upload-sent-once", Pkg: "queryer", Files: []string{"queryer/c09.go"}, Entry: "VerifUploadAnswers", Mode: "seq",
				Reach: []string{"upload failure signal", "upload answer accepted"}, Functions: []string{"queryer.(*MultiOpQueryer).Query", "queryer.(*MultiOpQueryer).queryBatch", "queryer.(*MultiOpQueryer).fetchFile", "queryer.(*MultiOpQueryer).sendMultipartRequest"}},
		},
		Assume:  []string{"gqlparser runs natively on concrete strings", "one canonical goroutine schedule", "single fault: one downstream call of one service fails", "one-post-per-call: net/http's client is the model (Do hands the request to the harness transport once; Request.GetBody is set as net/http.NewRequest does for in-memory bodies); status symbolic in [100,599], body shapes of the C09 descriptor"},
		Outside: []string{"mutation operations beyond the scenario list", "sequences of several faults"},
	})
}
