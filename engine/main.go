package main

import (
	"crypto/sha256"
	"encoding/json"
	"fmt"
	"os"
	"path/filepath"
	"runtime"
	"runtime/debug"
	"runtime/pprof"
	"sort"
	"strconv"
	"strings"
	"time"

	"golang.org/x/tools/go/packages"
	"golang.org/x/tools/go/ssa"
	"golang.org/x/tools/go/ssa/ssautil"
)

const repoMod = "github.com/buildbuildio/pebbles"

var verifRoot = "/verif"

func pkgPath(dir string) string {
	if dir == "." || dir == "" {
		return repoMod
	}
	return repoMod + "/" + dir
}

func pkgName(dir string) string {
	if dir == "." || dir == "" {
		return "pebbles"
	}
	return filepath.Base(dir)
}

// primsSource is the declaration file of the harness primitives, generated per package.
// symbolic variant: body-less declarations intercepted by the symbolic executor;
// native variant: bodies that replay a recorded vector (translator validation, native.go).
func primsSource(pkg string, native bool) []byte {
	httpPkgs := pkg == "queryer" || pkg == "pebbles"
	if !native {
		src := `package ` + pkg + `
`
		if httpPkgs {
			src += `
import "net/http"
`
		}
		src += `
// harness primitives intercepted by the symbolic executor (symgo)
func verifInt(name string, lo, hi int) int
func verifBool(name string) bool
func verifChoice(name string, n int) int
func verifNumStr(name string, lo, hi int) string
func verifItoa(n int) string
func verifAtom(name string, nfresh int, domain ...string) string
func verifAssume(c bool)
func verifAssert(c bool, label string)
func verifReach(label string)
func verifOutcome(key, outcome string)
func verifYield()
func verifKnown(id string, c bool)
func verifParam(name string, def int) int
func verifConcInt(x int) int
func verifConcStr(s string) string
func verifLog(s string)
func verifGoroutines() int
func verifClosure(name string, env ...interface{}) interface{}
`
		if httpPkgs {
			src += `func verifRequestBody(r *http.Request) []byte
func verifSetMultipart(req *http.Request, fieldNames, fieldValues, fileKeys, fileNames, fileContents []string)
func verifRequestMultipart(req *http.Request) map[string]interface{}
func verifSpillFiles(req *http.Request)

// vNativeTransport routes a real http.Client to the harness transport in native runs (the symbolic
// executor intercepts (*http.Client).Do before any transport is consulted)
type vNativeTransport struct{ do func(*http.Request) (*http.Response, error) }

func (t vNativeTransport) RoundTrip(r *http.Request) (*http.Response, error) {
	if r.Host == "" && r.URL != nil {
		r.Host = r.URL.Host
		if r.Host == "" {
			r.Host = r.URL.String() // service "URLs" of the harness are bare names
		}
	}
	return t.do(r)
}
`
		}
		return []byte(src)
	}
	return []byte(nativePrims(pkg, httpPkgs))
}

type loaded struct {
	prog  *ssa.Program
	pkgs  map[string]*ssa.Package
	tLoad time.Duration
}

// repoRoot is the tree under test: /repo, unless VERIF_REPO names a scratch worktree of it (used when
// seeded changes are tried without touching /repo; registered checks never set it)
var repoRoot = func() string {
	if r := os.Getenv("VERIF_REPO"); r != "" {
		return strings.TrimSuffix(r, "/")
	}
	return "/repo"
}()

func loadProgram(overlay map[string][]byte) (*loaded, error) {
	t0 := time.Now()
	cfg := &packages.Config{
		Mode:       packages.LoadAllSyntax,
		Dir:        repoRoot,
		Overlay:    overlay,
		BuildFlags: []string{"-tags=verif"},
		Env:        append(os.Environ(), "GOFLAGS=-mod=mod", "GOPROXY=off", "GOSUMDB=off", "GOTOOLCHAIN=local"),
	}
	pkgs, err := packages.Load(cfg, "./...")
	if err != nil {
		return nil, err
	}
	nerr := 0
	packages.Visit(pkgs, nil, func(p *packages.Package) {
		for _, e := range p.Errors {
			fmt.Fprintln(os.Stderr, "load error:", e)
			nerr++
		}
	})
	if nerr > 0 {
		return nil, fmt.Errorf("%d package load errors", nerr)
	}
	prog, spkgs := ssautil.AllPackages(pkgs, ssa.InstantiateGenerics)
	prog.Build()
	l := &loaded{prog: prog, pkgs: map[string]*ssa.Package{}, tLoad: time.Since(t0)}
	for _, p := range spkgs {
		if p != nil {
			l.pkgs[p.Pkg.Path()] = p
		}
	}
	return l, nil
}

type KernelResult struct {
	Kernel          string            `json:"kernel"`
	Entry           string            `json:"entry"`
	Mode            string            `json:"mode"`
	Params          map[string]int    `json:"bounds"`
	Paths           int64             `json:"paths"`
	States          int64             `json:"distinct_states"`
	Steps           int64             `json:"ssa_instructions"`
	Obligations     int64             `json:"obligations_discharged"`
	Ends            map[string]int    `json:"path_ends"`
	Queries         map[string]int64  `json:"solver_queries"`
	SolverTimeS     float64           `json:"solver_time_s"`
	WallS           float64           `json:"wall_s"`
	Exhaustive      bool              `json:"exhaustive"`
	Incomplete      string            `json:"incomplete,omitempty"`
	Reach           map[string]int    `json:"reach_witnesses"`
	MissingReach    []string          `json:"missing_reach,omitempty"`
	FalseTwin       bool              `json:"false_twin_violated"`
	SymbolicToEnd   []string          `json:"symbolic_to_the_end"`
	CaseSplit       []string          `json:"case_split"`
	Intrinsics      []string          `json:"intrinsics"`
	Assumptions     []string          `json:"assumptions,omitempty"`
	Functions       []string          `json:"functions_encoded"`
	Samples         []Sample          `json:"samples"`
	Violations      []*Violation      `json:"violations,omitempty"`
	Known           []*Violation      `json:"known_findings_seen,omitempty"`
	Inconclusive    []*Violation      `json:"inconclusive,omitempty"`
	CrossCheck      map[string]string `json:"solver_cross_check,omitempty"`
	NativeValidated int               `json:"native_runs_agreeing"`
	NativeVectors   int               `json:"native_vectors_replayed"`
}

func paramsFor(k *Kernel, tier string) map[string]int {
	out := map[string]int{}
	for n, v := range k.Quick {
		out[n] = v
	}
	if tier == "thorough" {
		for n, v := range k.Thorough {
			out[n] = v
		}
	}
	return out
}

func runKernel(l *loaded, k *Kernel, tier string, seed int64) *KernelResult {
	t0 := time.Now()
	params := paramsFor(k, tier)
	cfg := Config{Mode: k.Mode, Preempt: -1, StepBudget: 4000000, Unwind: 4000, SolverKind: k.Solver, Race: k.Race, Params: params,
		Workers: runtime.NumCPU(), Seed: seed, MapOrder: params["maporder"], LogQueries: tier == "thorough"}
	if cfg.Mode == "" {
		cfg.Mode = "seq"
	}
	if v, ok := params["preempt"]; ok {
		cfg.Preempt = v
	}
	if v, ok := params["unwind"]; ok {
		cfg.Unwind = v
	}
	if v, ok := params["stepbudget"]; ok {
		cfg.StepBudget = v
	}
	if v, ok := params["maxpaths"]; ok {
		cfg.MaxPaths = v
	}
	for _, kv := range strings.Fields(os.Getenv("SYMGO_PARAMS")) {
		if p := strings.SplitN(kv, "=", 2); len(p) == 2 {
			params[p[0]], _ = strconv.Atoi(p[1])
		}
	}
	if w := os.Getenv("SYMGO_WORKERS"); w != "" {
		cfg.Workers, _ = strconv.Atoi(w)
	}
	budget := 20 * time.Minute
	if tier == "thorough" {
		budget = 60 * time.Minute
	}
	if v, ok := params["unwind"]; ok {
		cfg.Unwind = v // loop iterations per path before the path is given up as "unwind" (stated in the evidence as a bound)
	}
	if v, ok := params["budget_s"]; ok {
		budget = time.Duration(v) * time.Second
	}
	cfg.Deadline = time.Now().Add(budget)
	ex := NewExplorer(l.prog, cfg)
	hp := l.pkgs[pkgPath(k.Pkg)]
	if hp == nil {
		fatalf("harness package %s not loaded", k.Pkg)
	}
	ex.hpkg = hp
	ex.entry = hp.Func(k.Entry)
	if ex.entry == nil {
		fatalf("entry %s not found in %s", k.Entry, k.Pkg)
	}
	if !k.NoInit {
		ex.inits = []*ssa.Function{hp.Func("init")}
	}
	ex.wantNative = k.Native && os.Getenv("SYMGO_NO_NATIVE") == ""
	ex.Run()
	res := &KernelResult{Kernel: k.Name, Entry: k.Pkg + "." + k.Entry, Mode: cfg.Mode, Params: params, Paths: ex.paths, States: ex.nvisited, Steps: ex.steps,
		Obligations: ex.obls, Ends: ex.ends, Reach: ex.reached, Samples: ex.samples, WallS: time.Since(t0).Seconds(), Incomplete: ex.incomplete}
	if res.States == 0 {
		res.States = ex.paths
	}
	res.Queries = map[string]int64{"total": ex.stats.Queries, "sat": ex.stats.Sat, "unsat": ex.stats.Unsat, "unknown": ex.stats.Unknown, "cache_hits": ex.stats.CacheHits}
	res.SolverTimeS = float64(ex.stats.Nanos) / 1e9
	for _, lbl := range k.Reach {
		if ex.reached[lbl] == 0 {
			res.MissingReach = append(res.MissingReach, lbl)
		}
	}
	for n := range ex.symbolicToEnd {
		res.SymbolicToEnd = append(res.SymbolicToEnd, n)
	}
	for n := range ex.caseSplit {
		res.CaseSplit = append(res.CaseSplit, n)
	}
	for n := range ex.intrUsed {
		res.Intrinsics = append(res.Intrinsics, n)
	}
	for n := range ex.assumptions {
		res.Assumptions = append(res.Assumptions, n)
	}
	sort.Strings(res.SymbolicToEnd)
	sort.Strings(res.CaseSplit)
	sort.Strings(res.Intrinsics)
	sort.Strings(res.Assumptions)
	res.Functions = k.Functions
	for _, v := range ex.viols {
		switch v.Kind {
		case "unsupported", "inconclusive", "unwind":
			res.Inconclusive = append(res.Inconclusive, v)
		default:
			res.Violations = append(res.Violations, v)
		}
	}
	for _, v := range ex.knownHit {
		res.Known = append(res.Known, v)
	}
	sortViol := func(vs []*Violation) {
		sort.Slice(vs, func(i, j int) bool { return vs[i].Kind+vs[i].Msg < vs[j].Kind+vs[j].Msg })
	}
	sortViol(res.Violations)
	sortViol(res.Known)
	sortViol(res.Inconclusive)
	if ex.wantNative {
		agree, bad := nativeValidate(k, ex.vectors)
		res.NativeValidated = agree
		res.NativeVectors = len(ex.vectors)
		for _, b := range bad {
			res.Inconclusive = append(res.Inconclusive, &Violation{Kind: "inconclusive", Msg: "translator validation: " + b, Count: 1})
		}
	}
	res.Exhaustive = ex.incomplete == "" && len(res.Inconclusive) == 0
	// false twin: replay the first completed path with an injected failing assertion at the end
	if len(ex.samples) > 0 {
		tw := NewExplorer(l.prog, cfg)
		tw.hpkg, tw.entry, tw.inits = ex.hpkg, ex.entry, ex.inits
		tw.strTable = ex.strTable
		end, _ := tw.Replay(ex.samples[0].Decisions)
		// the twin asserts false where the harness returned: it is violated iff the path completes
		res.FalseTwin = end != nil && end.Kind == "ok"
	}
	if ex.qlog != nil {
		chk, dis, bad := ex.qlog.crossCheck("z3-new", []string{"-in", "-t:20000"}, 3000)
		res.CrossCheck = map[string]string{"second_solver": "z3-new 5.1.0", "queries_rechecked": strconv.Itoa(chk), "disagreements": strconv.Itoa(dis)}
		if dis > 0 {
			res.CrossCheck["first_disagreement"] = bad
			res.Inconclusive = append(res.Inconclusive, &Violation{Kind: "inconclusive", Msg: "solver cross-check disagreement: " + bad})
		}
	}
	return res
}

func fatalf(f string, a ...interface{}) {
	fmt.Fprintf(os.Stderr, "symgo: "+f+"\n", a...)
	os.Exit(2)
}

type KnownFile struct {
	Findings []struct {
		Property   string `json:"property"`
		FindingID  string `json:"finding_id"`
		Harness    string `json:"harness"`
		InputClass string `json:"input_class"`
		What       string `json:"what"`
		Native     string `json:"native_replay,omitempty"`
	} `json:"findings"`
	Fixed []string `json:"fixed"`
}

func loadKnown() *KnownFile {
	kf := &KnownFile{}
	b, err := os.ReadFile(filepath.Join(verifRoot, "known_findings.json"))
	if err != nil {
		return kf
	}
	if err := json.Unmarshal(b, kf); err != nil {
		fatalf("known_findings.json: %v", err)
	}
	return kf
}

func harnessOverlay(ks []*Kernel) map[string][]byte {
	ov := map[string][]byte{}
	for _, k := range ks {
		dir := k.Pkg
		if dir == "." {
			dir = ""
		}
		ov[filepath.Join(repoRoot, dir, "zz_verif_prims.go")] = primsSource(pkgName(k.Pkg), false)
		for _, f := range k.Files {
			src, err := os.ReadFile(filepath.Join(verifRoot, "harness", f))
			if err != nil {
				fatalf("harness file: %v", err)
			}
			ov[filepath.Join(repoRoot, dir, "zz_verif_"+strings.ReplaceAll(filepath.Base(f), "/", "_"))] = src
		}
	}
	return ov
}

func checkMain(propID, tier string) int {
	t0 := time.Now()
	prop := properties[propID]
	if prop == nil {
		fatalf("unknown property %s", propID)
	}
	seed := int64(0)
	if s := os.Getenv("VERIF_SEED"); s != "" {
		seed, _ = strconv.ParseInt(s, 10, 64)
	}
	var ks []*Kernel
	only := os.Getenv("SYMGO_KERNEL")
	for i := range prop.Kernels {
		k := &prop.Kernels[i]
		if only != "" && !strings.Contains(k.Name, only) {
			continue
		}
		if tier == "quick" && k.ThoroughOnly {
			continue
		}
		ks = append(ks, k)
	}
	l, err := loadProgram(harnessOverlay(ks))
	if err != nil {
		fmt.Printf("INCONCLUSIVE property=%s cannot load /repo with harness overlay: %v\n", propID, err)
		return 2
	}
	kf := loadKnown()
	knownWhat := map[string]string{}
	for _, f := range kf.Findings {
		if f.Property == propID {
			knownWhat[f.FindingID] = f.What
		}
	}
	declared := map[string]bool{}
	for _, k := range ks {
		for _, id := range k.Known {
			declared[id] = true
		}
	}
	if only == "" {
		for id := range knownWhat {
			if !declared[id] {
				fmt.Printf("INCONCLUSIVE property=%s known_findings.json lists %s but no harness declares it\n", propID, id)
				return 2
			}
		}
		for id := range declared {
			if _, ok := knownWhat[id]; !ok {
				fmt.Printf("INCONCLUSIVE property=%s harness declares known finding %s that known_findings.json does not list\n", propID, id)
				return 2
			}
		}
	}
	var results []*KernelResult
	exit := 0
	nviol := 0
	knownSeen := map[string]bool{}
	for _, k := range ks {
		r := runKernel(l, k, tier, seed)
		results = append(results, r)
		if hp := os.Getenv("SYMGO_HEAPPROFILE"); hp != "" {
			if f, err := os.Create(hp + "." + k.Name); err == nil {
				pprof.WriteHeapProfile(f)
				f.Close()
			}
		}
		// the explorer of a finished kernel (visited set, work list, per-worker caches) is garbage now:
		// give it back before the next kernel starts (thorough tiers run several large kernels in a row)
		runtime.GC()
		debug.FreeOSMemory()
		if os.Getenv("SYMGO_MEM") != "" {
			var ms runtime.MemStats
			runtime.ReadMemStats(&ms)
			fmt.Printf("... memory after %s: heap in use %d MB, sys %d MB\n", k.Name, ms.HeapInuse>>20, ms.Sys>>20)
		}
		fmt.Printf("[%s] %s: paths=%d states=%d instr=%d obligations=%d ends=%v queries=%d (sat %d, unsat %d, unknown %d) solver=%.1fs wall=%.1fs\n",
			propID, k.Name, r.Paths, r.States, r.Steps, r.Obligations, r.Ends, r.Queries["total"], r.Queries["sat"], r.Queries["unsat"], r.Queries["unknown"], r.SolverTimeS, r.WallS)
		for _, v := range r.Known {
			knownSeen[v.Known] = true
			if !declared[v.Known] && only == "" {
				fmt.Printf("INCONCLUSIVE property=%s kernel=%s harness reported known finding %s that the kernel registry does not declare\n", propID, k.Name, v.Known)
				if exit == 0 {
					exit = 2
				}
			}
		}
		for _, v := range r.Violations {
			nviol++
			file := writeReplay(propID, k, tier, r.Params, v)
			// replay before reporting
			confirmed := replayFile(l, file, false)
			if confirmed {
				fmt.Printf("VIOLATION property=%s replay=%s\n", propID, file)
				fmt.Printf("  kernel=%s kind=%s: %s (%d paths)\n", k.Name, v.Kind, v.Msg, v.Count)
				exit = 1
			} else {
				fmt.Printf("INCONCLUSIVE property=%s counterexample did not reproduce on engine replay: %s\n", propID, v.Msg)
				if exit == 0 {
					exit = 2
				}
			}
		}
	}
	if exit != 1 {
		for i, r := range results {
			for _, v := range r.Inconclusive {
				fmt.Printf("INCONCLUSIVE property=%s kernel=%s %s: %s (%d paths)\n", propID, ks[i].Name, v.Kind, v.Msg, v.Count)
				exit = 2
			}
			for _, lbl := range r.MissingReach {
				fmt.Printf("INCONCLUSIVE property=%s kernel=%s vacuity: mandatory label %q reached on no completed path\n", propID, ks[i].Name, lbl)
				exit = 2
			}
			if r.Incomplete != "" {
				fmt.Printf("INCONCLUSIVE property=%s kernel=%s exploration incomplete: %s\n", propID, ks[i].Name, r.Incomplete)
				exit = 2
			}
			if !r.FalseTwin && r.Ends["ok"] > 0 {
				fmt.Printf("INCONCLUSIVE property=%s kernel=%s false twin not violated\n", propID, ks[i].Name)
				exit = 2
			}
			if r.Ends["ok"] == 0 && len(r.Violations) == 0 && len(r.Known) == 0 {
				fmt.Printf("INCONCLUSIVE property=%s kernel=%s vacuity: no path completed\n", propID, ks[i].Name)
				exit = 2
			}
		}
	}
	var ids []string
	for id := range knownSeen {
		ids = append(ids, id)
	}
	sort.Strings(ids)
	for _, id := range ids {
		fmt.Printf("KNOWN-FINDING: property=%s %s: %s\n", propID, id, knownWhat[id])
	}
	writeEvidence(prop, tier, seed, results, l, nviol, time.Since(t0))
	fmt.Printf("[%s] %s done in %.1fs (load %.1fs) exit=%d\n", propID, tier, time.Since(t0).Seconds(), l.tLoad.Seconds(), exit)
	return exit
}

type ReplayFile struct {
	Property  string         `json:"property"`
	Kernel    string         `json:"kernel"`
	Tier      string         `json:"tier"`
	Params    map[string]int `json:"bounds"`
	Violation *Violation     `json:"violation"`
}

func writeReplay(propID string, k *Kernel, tier string, params map[string]int, v *Violation) string {
	dir := filepath.Join(verifRoot, "out", "replay")
	os.MkdirAll(dir, 0o755)
	rf := ReplayFile{Property: propID, Kernel: k.Name, Tier: tier, Params: params, Violation: v}
	b, _ := json.MarshalIndent(rf, "", " ")
	h := sha256.Sum256(b)
	file := filepath.Join(dir, fmt.Sprintf("%s-%s-%x.json", propID, k.Name, h[:4]))
	os.WriteFile(file, b, 0o644)
	return file
}

// replayFile re-runs exactly the recorded decision vector and reports whether the same failure occurs.
func replayFile(l *loaded, file string, verbose bool) bool {
	b, err := os.ReadFile(file)
	if err != nil {
		fatalf("replay: %v", err)
	}
	var rf ReplayFile
	if err := json.Unmarshal(b, &rf); err != nil {
		fatalf("replay: %v", err)
	}
	prop := properties[rf.Property]
	if prop == nil {
		fatalf("replay: unknown property %s", rf.Property)
	}
	var k *Kernel
	for i := range prop.Kernels {
		if prop.Kernels[i].Name == rf.Kernel {
			k = &prop.Kernels[i]
		}
	}
	if k == nil {
		fatalf("replay: unknown kernel %s", rf.Kernel)
	}
	if l == nil {
		l, err = loadProgram(harnessOverlay([]*Kernel{k}))
		if err != nil {
			fatalf("replay: load: %v", err)
		}
	}
	cfg := Config{Mode: k.Mode, Preempt: -1, StepBudget: 4000000, Unwind: 4000, SolverKind: k.Solver, Race: k.Race, Params: rf.Params, Workers: 1, MapOrder: rf.Params["maporder"]}
	if cfg.Mode == "" {
		cfg.Mode = "seq"
	}
	if v, ok := rf.Params["preempt"]; ok {
		cfg.Preempt = v
	}
	if v, ok := rf.Params["unwind"]; ok {
		cfg.Unwind = v
	}
	ex := NewExplorer(l.prog, cfg)
	hp := l.pkgs[pkgPath(k.Pkg)]
	ex.hpkg = hp
	ex.entry = hp.Func(k.Entry)
	if !k.NoInit {
		ex.inits = []*ssa.Function{hp.Func("init")}
	}
	end, m := ex.Replay(rf.Violation.Decisions)
	same := end != nil && end.Kind == rf.Violation.Kind && end.Msg == rf.Violation.Msg
	if rf.Violation.Kind == "nondeterminism" {
		// both recorded paths complete, and report different outcomes under the same key
		outcomeOf := func(mm *Machine) string {
			if mm != nil {
				for _, kv := range mm.outcomes {
					if kv[0] == rf.Violation.OutcomeKey {
						return kv[1]
					}
				}
			}
			return "<none>"
		}
		ex2 := NewExplorer(l.prog, cfg)
		ex2.hpkg, ex2.entry, ex2.inits = ex.hpkg, ex.entry, ex.inits
		end2, m2 := ex2.Replay(rf.Violation.Other)
		o1, o2 := outcomeOf(m), outcomeOf(m2)
		same = end != nil && end2 != nil && end.Kind == "ok" && end2.Kind == "ok" && o1 == rf.Violation.Outcome && o2 == rf.Violation.OtherOutcome && o1 != o2
		if verbose {
			fmt.Printf("replay of %s kernel %s: two completed paths with the same inputs [%s]\n  path A %v\n    outcome: %s\n  path B %v\n    outcome: %s\n", rf.Property, rf.Kernel, rf.Violation.OutcomeKey, rf.Violation.Other, o2, rf.Violation.Decisions, o1)
			verbose = false
			fmt.Printf("  reproduced=%v\n", same)
		}
	}
	if verbose {
		fmt.Printf("replay of %s kernel %s: engine path ended with %s: %s\n", rf.Property, rf.Kernel, end.Kind, end.Msg)
		if m != nil {
			for _, e := range m.events {
				fmt.Println("  event:", e)
			}
		}
		fmt.Printf("  recorded: %s: %s\n  model: %v\n  reproduced=%v\n", rf.Violation.Kind, rf.Violation.Msg, rf.Violation.Model, same)
	}
	return same
}

func main() {
	if len(os.Args) < 2 {
		fatalf("usage: symgo check <property> <quick|thorough> | replay <file> | list | selftest")
	}
	debug.SetGCPercent(300)
	if v := os.Getenv("VERIF_ROOT"); v != "" {
		verifRoot = v
	}
	if pf := os.Getenv("SYMGO_CPUPROFILE"); pf != "" {
		f, _ := os.Create(pf)
		pprof.StartCPUProfile(f)
		defer pprof.StopCPUProfile()
	}
	switch os.Args[1] {
	case "check":
		tier := "quick"
		if len(os.Args) > 3 {
			tier = os.Args[3]
		}
		rc := checkMain(os.Args[2], tier)
		pprof.StopCPUProfile()
		os.Exit(rc)
	case "replay":
		if replayFile(nil, os.Args[2], true) {
			var rf ReplayFile
			b, _ := os.ReadFile(os.Args[2])
			json.Unmarshal(b, &rf)
			fmt.Printf("VIOLATION property=%s replay=%s\n", rf.Property, os.Args[2])
			os.Exit(1)
		}
		os.Exit(0)
	case "list":
		var ids []string
		for id := range properties {
			ids = append(ids, id)
		}
		sort.Strings(ids)
		for _, id := range ids {
			fmt.Println(id, properties[id].Title)
			for _, k := range properties[id].Kernels {
				fmt.Println("   ", k.Name, k.Pkg+"."+k.Entry, k.Mode)
			}
		}
	default:
		fatalf("unknown command %s", os.Args[1])
	}
}
