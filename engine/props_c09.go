package main

func init() {
	reg(&Property{
		ID:    "C09",
		Title: "Downstream failures are contained and reported, never masked",
		Kernels: []Kernel{
			{Name: "answer-of-any-size", Pkg: "queryer", Files: []string{"queryer/c09.go"}, Entry: "VerifAnswerOfAnySize", Mode: "seq",
				Reach:     []string{"answer of symbolic size accepted"},
				Functions: []string{"queryer.(*MultiOpQueryer).Query", "queryer.(*MultiOpQueryer).queryBatch", "queryer.(*MultiOpQueryer).fetch", "queryer.(*MultiOpQueryer).sendQueryRequest", "queryer.(*MultiOpQueryer).sendRequest"}},
			{Name: "upload-answers", Pkg: "queryer", Files: []string{"queryer/c09.go"}, Entry: "VerifUploadAnswers", Mode: "seq",
				Reach:     []string{"upload failure signal", "upload answer accepted"},
				Functions: []string{"queryer.(*MultiOpQueryer).queryBatch", "queryer.(*MultiOpQueryer).fetchFile", "queryer.prepareMultipart", "queryer.(*MultiOpQueryer).sendMultipartRequest", "queryer.(*MultiOpQueryer).sendRequest"}},
			{Name: "downstream-answers", Pkg: "queryer", Files: []string{"queryer/c09.go"}, Entry: "VerifDownstreamAnswers", Mode: "seq", Native: true,
				Quick: map[string]int{"nmax": 2}, Thorough: map[string]int{"nmax": 3},
				Reach:     []string{"failure signal", "answer accepted"},
				Functions: []string{"queryer.(*MultiOpQueryer).Query", "queryer.(*MultiOpQueryer).queryBatch", "queryer.(*MultiOpQueryer).fetch", "queryer.(*MultiOpQueryer).fetchFile", "queryer.(*MultiOpQueryer).sendQueryRequest", "queryer.(*MultiOpQueryer).sendRequest"}},
			{Name: "mutilated-answers", Pkg: ".", Files: []string{"root/fed.go", "root/c01.go", "root/c02.go", "root/c10.go", "root/c09.go"}, Entry: "VerifMutilatedAnswers", Mode: "seq", Native: true,
				Reach: []string{"failure signal reported", "mutilation explored", "mutilated answer inside a batch"}, Functions: pipelineFns},
		},
		Assume: []string{
			"answer-of-any-size: the HTTP client reads a healthy answer whose size is symbolic: pad in [0, 2^30] blanks precede the JSON text (never materialised; io.LimitReader is modelled over that count, other readers drop the blanks as a JSON decoder does)",
			"net/http client = harness transport; encoding/json = abstract codec over the real decoder; the status code is a symbolic integer in [100,599], the answer length a symbolic integer in [0,n+2]",
		},
		Outside: []string{"socket-level behaviour, real HTTP framing, hangs inside net/http", "more than nmax requests per call"},
	})
}
