package main

import (
	"fmt"
	"os"
	"sort"
	"strconv"
	"strings"
	"sync"
	"sync/atomic"
	"time"

	"golang.org/x/tools/go/ssa"
)

type Config struct {
	Mode       string // "all": every interleaving (stateful search); "seq": one canonical schedule
	Preempt    int    // pre-emption bound (<0: none)
	StepBudget int
	Unwind     int
	SolverKind string
	Race       bool
	MapOrder   int // divergence budget for order-symbolic map ranges (0: insertion order)
	Params     map[string]int
	MaxPaths   int
	Workers    int
	Deadline   time.Time
	Seed       int64
	NoInit     bool
	LogQueries bool
}

var traceSched = os.Getenv("SYMGO_TRACE") != ""

type strTable struct {
	mu    sync.Mutex
	codes map[string]int64
	strs  []string
}

type Violation struct {
	Kind      string            `json:"kind"`
	Msg       string            `json:"msg"`
	Decisions []int             `json:"decisions"`
	PC        []string          `json:"path_condition"`
	Model     map[string]string `json:"model"`
	Known     string            `json:"known_finding,omitempty"`
	Count     int               `json:"paths_with_same_failure"`
	Events    []string          `json:"events,omitempty"`
	// kind "nondeterminism": the completed path that gave another outcome for the same inputs
	Other        []int  `json:"other_decisions,omitempty"`
	OutcomeKey   string `json:"outcome_key,omitempty"`
	Outcome      string `json:"outcome,omitempty"`
	OtherOutcome string `json:"other_outcome,omitempty"`
}

type outcomeRec struct {
	outcome   string
	decisions []int
}

type Sample struct {
	Decisions []int             `json:"decisions"`
	Model     map[string]string `json:"model,omitempty"`
	End       string            `json:"end"`
	Steps     int               `json:"ssa_instructions"`
	Events    []string          `json:"events,omitempty"`
}

// Explorer is shared by all workers of one kernel run.
type Explorer struct {
	cfg      Config
	prog     *ssa.Program
	entry    *ssa.Function
	inits    []*ssa.Function
	hpkg     *ssa.Package // harness package
	strTable *strTable

	mu       sync.Mutex
	cond     *sync.Cond
	work     [][]int
	active   int
	stop     bool
	visited  sync.Map
	nvisited int64

	paths         int64
	steps         int64
	obls          int64
	ends          map[string]int
	viols         map[string]*Violation
	outcomes      map[string]*outcomeRec
	knownHit      map[string]*Violation
	reached       map[string]int
	samples       []Sample
	funcs         map[string]int64 // function -> instructions executed
	stats         SolverStats
	qlog          *queryLog
	vectors       []nativeVector
	wantNative    bool
	symbolicToEnd map[string]bool
	caseSplit     map[string]bool
	incomplete    string
	intrUsed      map[string]bool
	assumptions   map[string]bool
}

// Worker owns a solver process and runs paths.
type tempRegion struct {
	r     *region
	cells []*Value
	objs  []interface{}
}

type Worker struct {
	regionCache map[string][]*cachedRegion
	frozen      map[*Value]frozenRef
	frozenObj   map[interface{}]frozenRef
	tempRegions []tempRegion // digest-frozen regions of the current path (never reused)
	exportCache map[*region]*exportCache
	notes       map[string]map[string]bool // worker-local bookkeeping, merged into the explorer at the end
	ex          *Explorer
	solver      *Solver
	prefix      []int
	taken       []int
	decls       []string // declarations made on the current path (name sort)
	declSet     map[string]bool
	id          int
}

func NewExplorer(prog *ssa.Program, cfg Config) *Explorer {
	e := &Explorer{cfg: cfg, prog: prog, strTable: &strTable{codes: map[string]int64{}}, ends: map[string]int{}, viols: map[string]*Violation{},
		knownHit: map[string]*Violation{}, reached: map[string]int{}, funcs: map[string]int64{}, symbolicToEnd: map[string]bool{}, caseSplit: map[string]bool{},
		intrUsed: map[string]bool{}, assumptions: map[string]bool{}}
	e.cond = sync.NewCond(&e.mu)
	if cfg.LogQueries {
		e.qlog = &queryLog{seen: map[string]string{}}
	}
	return e
}

func (w *Worker) note(kind, name string) {
	if w.notes == nil {
		w.notes = map[string]map[string]bool{}
	}
	if w.notes[kind] == nil {
		w.notes[kind] = map[string]bool{}
	}
	w.notes[kind][name] = true
}

func (w *Worker) flushNotes() {
	e := w.ex
	e.mu.Lock()
	defer e.mu.Unlock()
	for n := range w.notes["intr"] {
		e.intrUsed[n] = true
	}
	for n := range w.notes["split"] {
		e.caseSplit[n] = true
	}
	for n := range w.notes["sym"] {
		e.symbolicToEnd[n] = true
	}
}

func (w *Worker) declsText() string {
	var sb strings.Builder
	for _, d := range w.decls {
		sb.WriteString("(declare-const " + d + ")\n")
	}
	return sb.String()
}

func (w *Worker) declare(name, sort string) {
	if !w.declSet[name] {
		w.declSet[name] = true
		w.decls = append(w.decls, name+" "+sort)
	}
	w.solver.Declare(name, sort)
}

// decide returns the decision at this point: replay from prefix or take 0 and schedule siblings
func (w *Worker) decide(n int) int {
	i := len(w.taken)
	if i < len(w.prefix) {
		d := w.prefix[i]
		w.taken = append(w.taken, d)
		return d
	}
	for alt := n - 1; alt >= 1; alt-- {
		p := append(append(make([]int, 0, len(w.taken)+1), w.taken...), alt)
		w.ex.push(p)
	}
	w.taken = append(w.taken, 0)
	return 0
}

func (e *Explorer) push(p []int) {
	e.mu.Lock()
	e.work = append(e.work, p)
	e.mu.Unlock()
	e.cond.Signal()
}

func (w *Worker) replaying() bool { return len(w.taken) < len(w.prefix) }

func (w *Worker) choose(m *Machine, n int, what string) int {
	if n <= 1 {
		return 0
	}
	return w.decide(n)
}

func (w *Worker) addPC(m *Machine, c string) {
	m.pc = append(m.pc, c)
	w.solver.Assert(c)
}

func (w *Worker) check(m *Machine, q string) string {
	return w.solver.Check(m.pc, q, w.declsText)
}

// fresh creates (or re-uses, by name) a symbolic constant
func (w *Worker) fresh(m *Machine, sort, name string) *Sym {
	m.nsym[name]++
	id := sanitize(name)
	if k := m.nsym[name]; k > 1 {
		id = fmt.Sprintf("%s!%d", id, k)
	}
	w.declare(id, sort)
	return &Sym{Sort: sort, E: id, Lo: satLo, Hi: satHi}
}

func sanitize(s string) string {
	var sb strings.Builder
	for _, r := range s {
		switch {
		case r >= 'a' && r <= 'z', r >= 'A' && r <= 'Z', r >= '0' && r <= '9', r == '_', r == '.', r == '!':
			sb.WriteRune(r)
		default:
			sb.WriteRune('_')
		}
	}
	if sb.Len() == 0 || (sb.String()[0] >= '0' && sb.String()[0] <= '9') {
		return "v" + sb.String()
	}
	return sb.String()
}

// branch on symbolic condition c; returns direction taken on this path
func (w *Worker) branch(m *Machine, c string) bool {
	if c == "true" {
		return true
	}
	if c == "false" {
		return false
	}
	i := len(w.taken)
	if i < len(w.prefix) {
		d := w.prefix[i]
		w.taken = append(w.taken, d)
		if d == 0 {
			w.addPC(m, c)
		} else {
			w.addPC(m, "(not "+c+")")
		}
		return d == 0
	}
	tr := w.check(m, c)
	fa := w.check(m, "(not "+c+")")
	if strings.HasPrefix(tr, "unknown") || strings.HasPrefix(fa, "unknown") {
		m.fail("inconclusive", "solver answered "+tr+"/"+fa+" on branch "+c)
	}
	switch {
	case tr == "sat" && fa == "sat":
		w.ex.push(append(append(make([]int, 0, len(w.taken)+1), w.taken...), 1))
		w.taken = append(w.taken, 0)
		w.addPC(m, c)
		return true
	case tr == "sat":
		w.taken = append(w.taken, 0)
		w.addPC(m, c)
		return true
	case fa == "sat":
		w.taken = append(w.taken, 1)
		w.addPC(m, "(not "+c+")")
		return false
	}
	m.fail("infeasible", "both sides unsat")
	return false
}

// concretize case-splits a symbolic int into its feasible values (model + blocking clause)
func (w *Worker) concretize(m *Machine, s *Sym, what string) int64 {
	if v, ok := m.conc[s.E]; ok {
		return v
	}
	i := len(w.taken)
	if i < len(w.prefix) {
		v := int64(w.prefix[i])
		w.taken = append(w.taken, int(v))
		w.addPC(m, fmt.Sprintf("(= %s %s)", s.E, smtInt(v)))
		m.conc[s.E] = v
		return v
	}
	var feas []int64
	block := "true"
	for {
		vals, verdict := w.solver.Values(block, []string{s.E})
		if verdict == "unsat" {
			break
		}
		if verdict != "sat" {
			m.fail("inconclusive", "solver answered "+verdict+" while case-splitting "+what)
		}
		v, ok := parseSMTInt(vals[0])
		if !ok {
			m.fail("inconclusive", "cannot parse model value "+vals[0])
		}
		feas = append(feas, v)
		block = fmt.Sprintf("(and %s (not (= %s %s)))", block, s.E, smtInt(v))
		if len(feas) > 256 {
			m.fail("inconclusive", "case split of "+what+" ("+s.E+") has more than 256 values")
		}
	}
	sort.Slice(feas, func(i, j int) bool { return feas[i] < feas[j] })
	if len(feas) == 0 {
		m.fail("infeasible", "concretize")
	}
	w.note("split", what)
	for k := len(feas) - 1; k >= 1; k-- {
		w.ex.push(append(append(make([]int, 0, len(w.taken)+1), w.taken...), int(feas[k])))
	}
	w.taken = append(w.taken, int(feas[0]))
	w.addPC(m, fmt.Sprintf("(= %s %s)", s.E, smtInt(feas[0])))
	m.conc[s.E] = feas[0]
	return feas[0]
}

// knownSplit decides whether a failure with extra condition notO (may be "true") lies outside all
// recorded known-finding classes. Returns ("", true) for a genuine violation or (id, false).
func (w *Worker) knownSplit(m *Machine, notO string) (string, bool) {
	if len(m.known) == 0 {
		return "", true
	}
	outside := notO
	for _, k := range m.known {
		outside = "(and " + outside + " " + smtBool(mkNot(k.cond)) + ")"
	}
	r := w.check(m, outside)
	if r == "sat" {
		return "", true
	}
	if r != "unsat" {
		m.fail("inconclusive", "solver answered "+r+" on known-finding split")
	}
	for _, k := range m.known {
		if r := w.check(m, "(and "+notO+" "+smtBool(k.cond)+")"); r == "sat" {
			return k.id, false
		}
	}
	return "", true
}

func (w *Worker) assert(m *Machine, c Value, label string) {
	m.obls++
	switch c := c.(type) {
	case bool:
		if !c {
			m.fail("violation", label)
		}
	case *Sym:
		// an assertion is a branch whose false side is a violation; a decision is always recorded
		// so that replay is deterministic
		i := len(w.taken)
		if i < len(w.prefix) {
			d := w.prefix[i]
			w.taken = append(w.taken, d)
			if d == 0 {
				w.addPC(m, c.E)
				return
			}
			w.addPC(m, "(not "+c.E+")")
			m.fail("violation", label+" [symbolic: "+c.E+" can be false]")
		}
		r := w.check(m, "(not "+c.E+")")
		switch {
		case r == "unsat":
			w.taken = append(w.taken, 0)
			w.addPC(m, c.E)
			return
		case r != "sat":
			m.fail("inconclusive", "solver answered "+r+" on assertion "+label)
		}
		if r2 := w.check(m, c.E); r2 == "sat" {
			w.ex.push(append(append(make([]int, 0, len(w.taken)+1), w.taken...), 0))
		}
		w.taken = append(w.taken, 1)
		w.addPC(m, "(not "+c.E+")")
		m.fail("violation", label+" [symbolic: "+c.E+" can be false]")
	default:
		panic(fmt.Sprintf("assert %T", c))
	}
}

func (w *Worker) assume(m *Machine, c Value) {
	switch c := c.(type) {
	case bool:
		if !c {
			m.fail("infeasible", "assume false")
		}
	case *Sym:
		if !w.replaying() {
			r := w.check(m, c.E)
			if r == "unsat" {
				m.fail("infeasible", "assume unsat")
			}
			if r != "sat" {
				m.fail("inconclusive", "solver answered "+r+" on assumption")
			}
		}
		w.addPC(m, c.E)
	}
}

func (w *Worker) model(m *Machine) map[string]string {
	if len(w.decls) == 0 {
		return nil
	}
	var names []string
	for _, d := range w.decls {
		names = append(names, strings.Fields(d)[0])
	}
	vals, verdict := w.solver.Values("true", names)
	if verdict != "sat" {
		return map[string]string{"_": verdict}
	}
	out := map[string]string{}
	for i, n := range names {
		out[n] = vals[i]
	}
	return out
}

func newMachine(w *Worker) *Machine {
	m := &Machine{prog: w.ex.prog, ex: w, globals: map[*ssa.Global]Ptr{}, wgs: map[Ptr]*WG{}, mus: map[Ptr]*Mu{}, onces: map[Ptr]*OnceSt{},
		bufs: map[Ptr]*[]Value{}, side: map[Ptr]Value{}, nsym: map[string]int{}, conc: map[string]int64{}, reached: map[string]bool{}, native: map[string]interface{}{}}
	if w.ex.cfg.Race {
		m.race = &raceState{cells: map[interface{}]*accessRec{}}
	}
	return m
}

// runPath executes the harness once following prefix.
func (w *Worker) runPath(prefix []int) (end *PathEnd, m *Machine) {
	e := w.ex
	w.prefix = prefix
	w.taken = nil
	w.decls = nil
	w.declSet = map[string]bool{}
	w.solver.BeginPath()
	w.recycleRegions()
	for _, t := range w.tempRegions {
		for _, c := range t.cells {
			delete(w.frozen, c)
		}
		for _, o := range t.objs {
			delete(w.frozenObj, o)
		}
	}
	w.tempRegions = nil
	for r := range w.exportCache {
		if r.dirty {
			delete(w.exportCache, r)
		}
	}
	m = newMachine(w)
	defer func() {
		if r := recover(); r != nil {
			if sp, ok := r.(stopPath); ok {
				end = sp.end
				return
			}
			if gp, ok := r.(goPanicSig); ok {
				end = &PathEnd{Kind: "panic", Msg: "panic outside goroutine step: " + gp.msg}
				return
			}
			end = &PathEnd{Kind: "unsupported", Msg: fmt.Sprintf("engine panic: %v", r)}
			if os.Getenv("SYMGO_DEBUG") != "" {
				panic(r)
			}
		}
	}()
	main := &G{id: 0, started: "harness"}
	m.gs = append(m.gs, main)
	m.pushFrame(main, e.entry, nil, nil, nil)
	for i := len(e.inits) - 1; i >= 0; i-- {
		m.pushFrame(main, e.inits[i], nil, nil, nil)
	}
	cur := main
	for {
		// run cur until it yields, blocks or finishes
		for cur != nil && cur.state == Runnable {
			if !m.stepSafe(cur) {
				break
			}
		}
		if e.cfg.Mode != "seq" {
			// partial-order reduction: steps between two visible operations are local (the race detector
			// reports executions for which this is not true), so every runnable goroutine is advanced
			// to its next visible operation before a scheduling decision is taken
			for changed := true; changed; {
				changed = false
				for i := 0; i < len(m.gs); i++ {
					g := m.gs[i]
					if g.state == Runnable && !g.atVisible {
						for g.state == Runnable {
							if !m.stepSafe(g) {
								break
							}
						}
						changed = true
					}
				}
			}
		}
		var runnable []*G
		for _, g := range m.gs {
			if g.state == Runnable {
				runnable = append(runnable, g)
			}
		}
		if len(runnable) == 0 {
			allDone := true
			var blocked []string
			for _, g := range m.gs {
				if g.state != Done {
					allDone = false
					blocked = append(blocked, fmt.Sprintf("g%d(started %s): %s", g.id, g.started, g.blockedOn))
				}
			}
			if allDone {
				return &PathEnd{Kind: "ok"}, m
			}
			if main.state == Done {
				return &PathEnd{Kind: "leak", Msg: "goroutines alive after the harness returned: " + strings.Join(blocked, "; ")}, m
			}
			return &PathEnd{Kind: "deadlock", Msg: "all goroutines are asleep: " + strings.Join(blocked, "; ")}, m
		}
		if e.cfg.Mode == "seq" {
			// canonical schedule: keep running the current goroutine, else the lowest runnable id
			if cur == nil || cur.state != Runnable {
				cur = runnable[0]
			}
			continue
		}
		// scheduling decision. order: current first (no preemption), then others
		ordered := runnable
		if cur != nil && cur.state == Runnable {
			ordered = []*G{cur}
			for _, g := range runnable {
				if g != cur {
					ordered = append(ordered, g)
				}
			}
			if e.cfg.Preempt >= 0 && m.preempt >= e.cfg.Preempt {
				ordered = ordered[:1]
			}
		}
		if !w.replaying() {
			h := m.stateHash(cur)
			if _, loaded := e.visited.LoadOrStore(h, true); loaded {
				return &PathEnd{Kind: "pruned"}, m
			}
			atomic.AddInt64(&e.nvisited, 1)
		}
		if traceSched {
			var sb strings.Builder
			for _, g := range ordered {
				fr := m.top(g)
				fmt.Fprintf(&sb, " g%d@%s", g.id, m.pos(fr.block.Instrs[fr.pc]))
			}
			fmt.Fprintln(os.Stderr, "SCHED", len(w.taken), sb.String())
		}
		k := w.choose(m, len(ordered), "sched")
		next := ordered[k]
		if cur != nil && cur.state == Runnable && next != cur {
			m.preempt++
		}
		cur = next
	}
}

func (e *Explorer) worker(id int, wg *sync.WaitGroup) {
	defer wg.Done()
	w := &Worker{ex: e, id: id, solver: NewSolver(e.cfg.SolverKind, &e.stats, e.qlog)}
	defer w.solver.Close()
	defer w.flushNotes()
	for {
		e.mu.Lock()
		for len(e.work) == 0 && e.active > 0 && !e.stop {
			e.cond.Wait()
		}
		if e.stop || (len(e.work) == 0 && e.active == 0) {
			e.mu.Unlock()
			e.cond.Broadcast()
			return
		}
		p := e.work[len(e.work)-1]
		e.work = e.work[:len(e.work)-1]
		e.active++
		e.mu.Unlock()

		end, m := w.runPath(p)
		w.finishPath(end, m)

		e.mu.Lock()
		e.active--
		if e.cfg.MaxPaths > 0 && e.paths >= int64(e.cfg.MaxPaths) && !e.stop {
			e.stop = true
			e.incomplete = fmt.Sprintf("path budget %d reached", e.cfg.MaxPaths)
		}
		if !e.cfg.Deadline.IsZero() && time.Now().After(e.cfg.Deadline) && !e.stop {
			e.stop = true
			e.incomplete = "time budget reached"
		}
		done := len(e.work) == 0 && e.active == 0
		e.mu.Unlock()
		if done || e.stop {
			e.cond.Broadcast()
		}
	}
}

func (w *Worker) finishPath(end *PathEnd, m *Machine) {
	e := w.ex
	var viol *Violation
	isFailure := false
	switch end.Kind {
	case "violation", "panic", "fatal", "deadlock", "leak", "race":
		isFailure = true
	}
	knownID := ""
	if isFailure && m != nil {
		func() {
			defer func() {
				if r := recover(); r != nil {
					if sp, ok := r.(stopPath); ok {
						end = sp.end
						isFailure = false
						return
					}
					panic(r)
				}
			}()
			id, genuine := w.knownSplit(m, "true")
			if !genuine {
				knownID = id
			}
		}()
	}
	if (isFailure || end.Kind == "unsupported" || end.Kind == "inconclusive" || end.Kind == "unwind") && m != nil {
		viol = &Violation{Kind: end.Kind, Msg: end.Msg, Decisions: append([]int{}, w.taken...), PC: append([]string{}, m.pc...), Known: knownID, Events: m.events}
		if isFailure {
			viol.Model = w.model(m)
		}
	}
	var sample *Sample
	if m != nil && (end.Kind == "ok") {
		e.mu.Lock()
		need := len(e.samples) < 5
		e.mu.Unlock()
		if need {
			sample = &Sample{Decisions: append([]int{}, w.taken...), Model: w.model(m), End: end.Kind, Steps: m.steps, Events: m.events}
		}
	}
	// translator validation: sample this path as a native input vector
	var vec *nativeVector
	if e.wantNative && m != nil && (end.Kind == "ok" || end.Kind == "violation" || end.Kind == "panic") {
		e.mu.Lock()
		n, p := len(e.vectors), e.paths
		e.mu.Unlock()
		if n < 24 && (p < 3 || p%61 == 7 || (end.Kind != "ok" && n < 16) || e.cfg.Mode == "all") {
			model := w.model(m)
			v := nativeVector{Params: e.cfg.Params, Expect: end.Kind, Label: end.Msg}
			okv := true
			for _, r := range m.primLog {
				if r.e != "" {
					mv, has := model[r.e]
					if !has {
						okv = false
						break
					}
					switch r.P {
					case "bool":
						r.V = mv
					case "atom":
						c, _ := parseSMTInt(mv)
						r.V = m.strOfCode(c)
					default:
						c, _ := parseSMTInt(mv)
						r.V = strconv.FormatInt(c, 10)
					}
				}
				v.Log = append(v.Log, r)
			}
			if okv {
				vec = &v
			}
		}
	}
	w.solver.EndPath()
	e.mu.Lock()
	defer e.mu.Unlock()
	if vec != nil && len(e.vectors) < 24 {
		vec.ID = len(e.vectors)
		e.vectors = append(e.vectors, *vec)
	}
	e.paths++
	if m != nil {
		e.steps += int64(m.steps)
		e.obls += int64(m.obls)
		if end.Kind == "ok" {
			for l := range m.reached {
				e.reached[l]++
			}
		}
	}
	// schedule determinism: completed paths that report an outcome for the same inputs (verifOutcome(key, outcome))
	// must report the same one, whatever the interleaving and the map orders that led there
	if m != nil && end.Kind == "ok" && viol == nil {
		for _, kv := range m.outcomes {
			if e.outcomes == nil {
				e.outcomes = map[string]*outcomeRec{}
			}
			rec := e.outcomes[kv[0]]
			if rec == nil {
				e.outcomes[kv[0]] = &outcomeRec{kv[1], append([]int{}, w.taken...)}
				continue
			}
			if rec.outcome != kv[1] {
				end = &PathEnd{Kind: "nondeterminism", Msg: "the outcome depends on the schedule [" + kv[0] + "]: " + rec.outcome + " <> " + kv[1]}
				viol = &Violation{Kind: end.Kind, Msg: end.Msg, Decisions: append([]int{}, w.taken...), PC: append([]string{}, m.pc...), Events: m.events,
					Other: rec.decisions, OutcomeKey: kv[0], Outcome: kv[1], OtherOutcome: rec.outcome}
				break
			}
		}
	}
	if knownID != "" {
		e.ends["known-finding"]++
	} else {
		e.ends[end.Kind]++
	}
	if viol != nil {
		key := end.Kind + ": " + end.Msg
		if end.Kind == "nondeterminism" {
			key = end.Kind + ": " + viol.OutcomeKey
		} else if m != nil && len(m.events) > 0 {
			key += " @ " + m.events[0]
		}
		tbl := e.viols
		if knownID != "" {
			tbl = e.knownHit
			key = knownID + " | " + key
		}
		if old, ok := tbl[key]; ok {
			old.Count++
		} else {
			viol.Count = 1
			tbl[key] = viol
		}
	}
	if sample != nil && len(e.samples) < 5 {
		e.samples = append(e.samples, *sample)
	}
	if e.paths%20000 == 0 {
		fmt.Fprintf(os.Stderr, "... paths=%d work=%d states=%d ends=%v\n", e.paths, len(e.work), atomic.LoadInt64(&e.nvisited), e.ends)
	}
}

func (e *Explorer) Run() {
	e.work = [][]int{{}}
	n := e.cfg.Workers
	if n <= 0 {
		n = 1
	}
	var wg sync.WaitGroup
	for i := 0; i < n; i++ {
		wg.Add(1)
		go e.worker(i, &wg)
	}
	wg.Wait()
}

// Replay runs exactly one path (used by --replay)
func (e *Explorer) Replay(decisions []int) (*PathEnd, *Machine) {
	w := &Worker{ex: e, solver: NewSolver(e.cfg.SolverKind, &e.stats, nil)}
	defer w.solver.Close()
	// a replay must not fork: give the full vector as prefix and ignore pushed siblings
	end, m := w.runPath(decisions)
	w.solver.EndPath()
	return end, m
}
