package main

import (
	"fmt"
	"go/types"
	"math"
	"strings"
	"sync"
)

// Sym is a symbolic scalar: an SMT-LIB term of sort Bool or Int.
// Int terms carry a conservative interval [Lo,Hi] (saturating) that is used to
// prove the absence of machine-integer wrap-around without a solver call.
type Sym struct {
	Sort   string // "Bool" | "Int"
	E      string
	Lo, Hi int64 // Int only
}

const (
	satLo = math.MinInt64 / 4
	satHi = math.MaxInt64 / 4
)

func sat(v int64) int64 {
	if v < satLo {
		return satLo
	}
	if v > satHi {
		return satHi
	}
	return v
}

func ival(v Value) (lo, hi int64) {
	switch v := v.(type) {
	case int64:
		return sat(v), sat(v)
	case *Sym:
		return v.Lo, v.Hi
	}
	panic(fmt.Sprintf("ival %T", v))
}

func smtInt(v Value) string {
	switch v := v.(type) {
	case int64:
		if v < 0 {
			if v == math.MinInt64 {
				return "(- 9223372036854775808)"
			}
			return fmt.Sprintf("(- %d)", -v)
		}
		return fmt.Sprintf("%d", v)
	case *Sym:
		return v.E
	}
	panic(fmt.Sprintf("smtInt %T", v))
}

func smtBool(v Value) string {
	switch v := v.(type) {
	case bool:
		if v {
			return "true"
		}
		return "false"
	case *Sym:
		return v.E
	}
	panic(fmt.Sprintf("smtBool %T", v))
}

func mkBool(e string) *Sym { return &Sym{Sort: "Bool", E: e} }

func mkNot(v Value) Value {
	switch v := v.(type) {
	case bool:
		return !v
	case *Sym:
		if strings.HasPrefix(v.E, "(not ") && balanced(v.E[5:len(v.E)-1]) {
			return mkBool(v.E[5 : len(v.E)-1])
		}
		return mkBool("(not " + v.E + ")")
	}
	panic("mkNot")
}

func balanced(s string) bool {
	d := 0
	for i := 0; i < len(s); i++ {
		switch s[i] {
		case '(':
			d++
		case ')':
			d--
			if d < 0 {
				return false
			}
			if d == 0 && i != len(s)-1 {
				return false
			}
		case ' ':
			if d == 0 {
				return false
			}
		}
	}
	return d == 0
}

func mkAnd(a, b Value) Value {
	if x, ok := a.(bool); ok {
		if !x {
			return false
		}
		return b
	}
	if y, ok := b.(bool); ok {
		if !y {
			return false
		}
		return a
	}
	return mkBool("(and " + smtBool(a) + " " + smtBool(b) + ")")
}

func mkOr(a, b Value) Value {
	if x, ok := a.(bool); ok {
		if x {
			return true
		}
		return b
	}
	if y, ok := b.(bool); ok {
		if y {
			return true
		}
		return a
	}
	return mkBool("(or " + smtBool(a) + " " + smtBool(b) + ")")
}

func mkBoolEq(a, b Value) Value {
	x, xc := a.(bool)
	y, yc := b.(bool)
	switch {
	case xc && yc:
		return x == y
	case xc:
		if x {
			return b
		}
		return mkNot(b)
	case yc:
		if y {
			return a
		}
		return mkNot(a)
	}
	if a.(*Sym).E == b.(*Sym).E {
		return true
	}
	return mkBool("(= " + smtBool(a) + " " + smtBool(b) + ")")
}

// integer comparison; op in = < <= > >=
func mkCmp(op string, a, b Value) Value {
	x, xc := a.(int64)
	y, yc := b.(int64)
	if xc && yc {
		switch op {
		case "=":
			return x == y
		case "<":
			return x < y
		case "<=":
			return x <= y
		case ">":
			return x > y
		case ">=":
			return x >= y
		}
	}
	alo, ahi := ival(a)
	blo, bhi := ival(b)
	// decide by intervals when possible
	switch op {
	case "=":
		if ahi < blo || bhi < alo {
			return false
		}
		if smtInt(a) == smtInt(b) {
			return true
		}
	case "<":
		if ahi < blo {
			return true
		}
		if alo >= bhi {
			return false
		}
	case "<=":
		if ahi <= blo {
			return true
		}
		if alo > bhi {
			return false
		}
	case ">":
		if alo > bhi {
			return true
		}
		if ahi <= blo {
			return false
		}
	case ">=":
		if alo >= bhi {
			return true
		}
		if ahi < blo {
			return false
		}
	}
	return mkBool("(" + op + " " + smtInt(a) + " " + smtInt(b) + ")")
}

func mul4(a, b, c, d int64) (int64, int64) {
	mulS := func(x, y int64) int64 {
		if x == 0 || y == 0 {
			return 0
		}
		p := x * y
		if p/y != x || p < satLo || p > satHi {
			if (x < 0) != (y < 0) {
				return satLo
			}
			return satHi
		}
		return p
	}
	vs := []int64{mulS(a, c), mulS(a, d), mulS(b, c), mulS(b, d)}
	lo, hi := vs[0], vs[0]
	for _, v := range vs[1:] {
		if v < lo {
			lo = v
		}
		if v > hi {
			hi = v
		}
	}
	return lo, hi
}

// mkArith builds a symbolic integer term for op in + - * with interval.
func mkArith(op string, a, b Value) *Sym {
	alo, ahi := ival(a)
	blo, bhi := ival(b)
	var lo, hi int64
	switch op {
	case "+":
		lo, hi = sat(alo+blo), sat(ahi+bhi)
	case "-":
		lo, hi = sat(alo-bhi), sat(ahi-blo)
	case "*":
		lo, hi = mul4(alo, ahi, blo, bhi)
	}
	return &Sym{Sort: "Int", E: "(" + op + " " + smtInt(a) + " " + smtInt(b) + ")", Lo: lo, Hi: hi}
}

// mkQuoRem: Go truncated division/remainder of a by b (b known non-zero on the path).
func mkQuoRem(isQuo bool, a, b Value) *Sym {
	as, bs := smtInt(a), smtInt(b)
	alo, ahi := ival(a)
	blo, _ := ival(b)
	var e string
	if alo >= 0 && blo > 0 {
		if isQuo {
			e = "(div " + as + " " + bs + ")"
		} else {
			e = "(mod " + as + " " + bs + ")"
		}
	} else {
		// truncated semantics via absolute values
		q := fmt.Sprintf("(ite (= (>= %s 0) (> %s 0)) (div (abs %s) (abs %s)) (- (div (abs %s) (abs %s))))", as, bs, as, bs, as, bs)
		if isQuo {
			e = q
		} else {
			e = fmt.Sprintf("(- %s (* %s %s))", as, bs, q)
		}
	}
	m := ahi
	if -alo > m {
		m = -alo
	}
	if alo >= 0 {
		return &Sym{Sort: "Int", E: e, Lo: 0, Hi: m}
	}
	return &Sym{Sort: "Int", E: e, Lo: -m, Hi: m}
}

func isSymbolic(v Value) bool {
	switch v.(type) {
	case *Sym, *StrNum, *StrAtom, *StrCat:
		return true
	}
	return false
}

// ptrTo returns THE pointer type to t: go/types creates a fresh object per NewPointer call, and every
// fresh object becomes a new key of the program's method-set cache (670 MB after 10^5 paths)
var ptrTypes sync.Map

func ptrTo(t types.Type) *types.Pointer {
	if p, ok := ptrTypes.Load(t); ok {
		return p.(*types.Pointer)
	}
	p, _ := ptrTypes.LoadOrStore(t, types.NewPointer(t))
	return p.(*types.Pointer)
}
