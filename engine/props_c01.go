package main

var pipelineFns = []string{"(*Gateway).Handler", "(*Gateway).queryHandler", "(*Gateway).queryHandler$1", "(*Gateway).queryHandler$2", "Results.Emit", "(*Gateway).getQueryers", "NewGateway",
	"requests.Parse", "requests.parseRequest", "planner.SequentialPlanner.Plan (sequential_planner.go, sanitize_selection_set.go, plan.go, context.go)", "format.(*Formatter).* (format.go)",
	"executor.ParallelExecutor.Execute", "executor.(*DepthExecutorManager).Execute", "executor.(*DepthExecutor).Execute/executeRequests/setIMap", "executor.parseRespones", "executor.findNextExecutionRequests*",
	"executor.FindInsertionPoints/FindSelection/extractID/merge*", "executor.(*CachedPointDataExtractor).Extract", "planner.ScrubFields.Clean", "planner.(*CachedPlanner).Plan", "gqlerrors.FormatError",
	"merger.ExtendMergerFunc.Merge", "merger.SanitizeNodeMergerFunc.Merge", "merger.TypeURLMap.*", "common.AsyncMapReduce (canonical schedule)"}

func init() {
	reg(&Property{
		ID:    "C01",
		Title: "Federated execution returns what a single server would return",
		Kernels: []Kernel{
			{Name: "pipeline", Pkg: ".", Files: []string{"root/fed.go", "root/c01.go"}, Entry: "VerifPipeline", Mode: "seq", Native: true,
				Quick: map[string]int{"k": 2, "three": 1}, Thorough: map[string]int{"k": 3, "three": 1},
				Reach: []string{"pipeline completed"}, Functions: pipelineFns,
				Known: []string{"C01-node-without-fragment", "C01-response-key-id-taken"}},
			{Name: "point-syntax", Pkg: "executor", Files: []string{"executor/c12.go"}, Entry: "VerifPointData", Mode: "seq",
				Reach: []string{"point parsed"}, Functions: []string{"executor.(*CachedPointDataExtractor).Extract"}},
			{Name: "pipeline-abstract", Pkg: ".", Files: []string{"root/fed.go", "root/c01.go"}, Entry: "VerifPipelineAbstract", Mode: "seq", Native: true,
				Quick: map[string]int{"k": 2}, Thorough: map[string]int{"k": 3},
				Reach: []string{"pipeline completed"}, Functions: pipelineFns,
				Known: []string{"C01-abs-interface-field-plus-fragment", "C01-abs-fragment-on-interface", "C01-abs-fragment-on-one-implementer"}},
			{Name: "pipeline-shared-entities", Pkg: ".", Files: []string{"root/fed.go", "root/c01.go"}, Entry: "VerifPipelineReviews", Mode: "seq", Native: true,
				Reach: []string{"pipeline completed"}, Functions: pipelineFns},
			{Name: "pipeline-deep", Pkg: ".", Files: []string{"root/fed.go", "root/c01.go"}, Entry: "VerifPipelineDeep", Mode: "seq", Native: true,
				Reach: []string{"pipeline completed"}, Functions: pipelineFns},
		},
		Assume: []string{
			"gqlparser (lexer, parser, validator) runs natively on the concrete strings each path produces and is not encoded",
			"services are harness fakes that evaluate the sub-requests they receive (validated natively against their own schema) over a small world",
			"goroutines of the request path run under one canonical schedule (scheduling is the subject of C08/C11/C13/C20)",
			"encoding/json replaced by the abstract codec",
		},
		Outside: []string{"schemas and operations beyond the scenario list", "list lengths above k", "HTTP framing"},
	})
}
