package main

import (
	"go/types"

	"golang.org/x/tools/go/ssa"
)

// sync.Map (environment model): the entries live in an interpreter map stored in the struct's own
// `dirty` field, so state hashing, region write barriers and import/export see them like any other
// heap object. Every method is one visible, atomic operation that both acquires and releases the
// map's clock (Store happens-before the Load that observes it; the model is a little stronger than
// the library's guarantee: every operation synchronises with every earlier one on the same map).

var syncMapDirtyIdx = -1

func (m *Machine) syncMapEntries(p Ptr, create bool) *MapV {
	if p == nil {
		m.throw("invalid memory address or nil pointer dereference (nil *sync.Map)")
	}
	st, ok := (*p).(Struct)
	if !ok {
		m.fail("unsupported", "sync.Map receiver is not a struct")
	}
	if syncMapDirtyIdx < 0 {
		if pkg := m.prog.ImportedPackage("sync"); pkg != nil {
			if tn, _ := pkg.Pkg.Scope().Lookup("Map").(*types.TypeName); tn != nil {
				if us, ok := tn.Type().Underlying().(*types.Struct); ok {
					for i := 0; i < us.NumFields(); i++ {
						if us.Field(i).Name() == "dirty" {
							syncMapDirtyIdx = i
						}
					}
				}
			}
		}
		if syncMapDirtyIdx < 0 {
			m.fail("unsupported", "sync.Map layout: no field named dirty")
		}
	}
	mp, _ := st[syncMapDirtyIdx].(*MapV)
	if mp == nil && create {
		mp = &MapV{}
		m.touch(p)
		st[syncMapDirtyIdx] = mp
	}
	return mp
}

func init() {
	vis := func(name string, fn intrinsicFn) {
		intrinsics[name] = fn
		visibleIntrinsics[name] = true
	}
	sync := func(m *Machine, g *G, p Ptr) {
		mu := m.mu(p)
		m.raceAcquire(g, mu.vc)
		m.raceRelease(g, &mu.vc)
	}
	vis("(*sync.Map).Load", func(m *Machine, g *G, fr *Frame, in ssa.Instruction, args []Value) {
		p := args[0].(Ptr)
		mp := m.syncMapEntries(p, false)
		sync(m, g, p)
		if i := mp.find(m, args[1]); i >= 0 {
			m.setResult(fr, in, Tuple{copyVal(mp.Vals[i]), true})
			return
		}
		m.setResult(fr, in, Tuple{Iface{}, false})
	})
	vis("(*sync.Map).Store", func(m *Machine, g *G, fr *Frame, in ssa.Instruction, args []Value) {
		p := args[0].(Ptr)
		mp := m.syncMapEntries(p, true)
		sync(m, g, p)
		mp.set(m, args[1], copyVal(args[2]))
		m.setResult(fr, in, nil)
	})
	vis("(*sync.Map).LoadOrStore", func(m *Machine, g *G, fr *Frame, in ssa.Instruction, args []Value) {
		p := args[0].(Ptr)
		mp := m.syncMapEntries(p, true)
		sync(m, g, p)
		if i := mp.find(m, args[1]); i >= 0 {
			m.setResult(fr, in, Tuple{copyVal(mp.Vals[i]), true})
			return
		}
		mp.set(m, args[1], copyVal(args[2]))
		m.setResult(fr, in, Tuple{copyVal(args[2]), false})
	})
	vis("(*sync.Map).LoadAndDelete", func(m *Machine, g *G, fr *Frame, in ssa.Instruction, args []Value) {
		p := args[0].(Ptr)
		mp := m.syncMapEntries(p, false)
		sync(m, g, p)
		if i := mp.find(m, args[1]); i >= 0 {
			v := copyVal(mp.Vals[i])
			mp.del(m, args[1])
			m.setResult(fr, in, Tuple{v, true})
			return
		}
		m.setResult(fr, in, Tuple{Iface{}, false})
	})
	vis("(*sync.Map).Delete", func(m *Machine, g *G, fr *Frame, in ssa.Instruction, args []Value) {
		p := args[0].(Ptr)
		mp := m.syncMapEntries(p, false)
		sync(m, g, p)
		if mp != nil {
			mp.del(m, args[1])
		}
		m.setResult(fr, in, nil)
	})
	vis("(*sync.Map).Range", func(m *Machine, g *G, fr *Frame, in ssa.Instruction, args []Value) {
		p := args[0].(Ptr)
		mp := m.syncMapEntries(p, false)
		sync(m, g, p)
		if mp != nil {
			keys := append([]Value{}, mp.Keys...)
			for _, k := range keys {
				i := mp.find(m, k)
				if i < 0 {
					continue
				}
				if !m.truth(m.callSync(g, args[1], []Value{k, copyVal(mp.Vals[i])})) {
					break
				}
			}
		}
		m.setResult(fr, in, nil)
	})
}
