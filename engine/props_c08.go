package main

func init() {
	reg(&Property{
		ID:    "C08",
		Title: "Batched requests are answered in order and independently",
		Kernels: []Kernel{
			{Name: "batch-all-interleavings", Pkg: ".", Files: []string{"root/fed.go", "root/c01.go", "root/c08.go"}, Entry: "VerifBatch", Mode: "all", Race: true, Native: true,
				Quick: map[string]int{"rmax": 2, "classes": 15}, Thorough: map[string]int{"rmax": 2, "classes": 15},
				Reach:     []string{"single", "batch of several", "empty batch"},
				Functions: []string{"(*Gateway).Handler", "(*Gateway).queryHandler", "(*Gateway).queryHandler$1", "(*Gateway).queryHandler$2", "Results.Emit", "emitError", "(*Gateway).parseIntrospectionQuery", "(*Gateway).getQueryers", "requests.Parse", "requests.parseRequest", "common.AsyncMapReduce[int,*Result,Results]", "planner.SequentialPlanner.Plan", "introspection.(*IntrospectionResolver).ResolveIntrospectionFields", "gqlerrors.FormatError"}},
			{Name: "batches-of-three", Pkg: ".", Files: []string{"root/fed.go", "root/c01.go", "root/c08.go"}, Entry: "VerifBatch", Mode: "all", Race: true, ThoroughOnly: true,
				Thorough:  map[string]int{"rmax": 3, "rmin": 3, "classes": 6, "budget_s": 3000},
				Reach:     []string{"batch of several"},
				Functions: []string{"(*Gateway).Handler", "(*Gateway).queryHandler", "(*Gateway).queryHandler$1", "(*Gateway).queryHandler$2", "Results.Emit", "emitError", "(*Gateway).parseIntrospectionQuery", "(*Gateway).getQueryers", "requests.Parse", "requests.parseRequest", "common.AsyncMapReduce[int,*Result,Results]", "planner.SequentialPlanner.Plan", "introspection.(*IntrospectionResolver).ResolveIntrospectionFields", "gqlerrors.FormatError"}},
			{Name: "batch-with-plan-cache", Pkg: ".", Files: []string{"root/fed.go", "root/c01.go", "root/c08.go"}, Entry: "VerifBatchCached", Mode: "seq", Native: true,
				Reach:     []string{"cached batch compared"},
				Functions: []string{"(*Gateway).queryHandler", "planner.(*CachedPlanner).Plan", "planner.(*CachedPlanner).hash", "planner.sanitizeSelectionSet", "executor.ParallelExecutor.Execute", "planner.ScrubFields.Clean"}},
			// the elements of a batch are planned by one goroutine each, through one shared planner: with the caching
			// planner, two concurrent Plan calls on a fresh or used cache, every interleaving, symbolic clock
			{Name: "batch-elements-share-plan-cache", Pkg: "planner", Files: []string{"planner/c14.go"}, Entry: "VerifCacheConcurrent", Mode: "all", Race: true,
				Reach:     []string{"concurrent plans", "concurrent plans on a used cache"},
				Functions: []string{"planner.(*CachedPlanner).Plan", "planner.(*CachedPlanner).clean"}},
		},
		Assume: []string{
			"batch-with-plan-cache: the real planner behind the caching planner and the real executor against evaluating services; every ordered pair of a 6-operation pool (helper-field pairs, a named operation, a root __typename), on a fresh gateway or after an earlier batch; canonical schedule",
			"the executor is a harness fake behind executor.Executor (what the real one computes is C01); the planner is the real one behind a wrapper that can fail",
			"gqlparser.LoadQuery runs natively on the concrete operation strings of the pool",
			"engine's model of channels/WaitGroup/select; encoding/json = abstract codec",
		},
		Outside: []string{"batches longer than 2 over the 15-class pool and longer than 3 over its first 6 classes (14 classes with batches of three exhaust the memory of this machine: 50 GB at 14^3 combinations)", "operations outside the 15-class pool"},
	})
}
