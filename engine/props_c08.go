package main

func init() {
	reg(&Property{
		ID:    "C08",
		Title: "Batched requests are answered in order and independently",
		Kernels: []Kernel{
			{Name: "batch-all-interleavings", Pkg: ".", Files: []string{"root/fed.go", "root/c01.go", "root/c08.go"}, Entry: "VerifBatch", Mode: "all", Race: true, Native: true,
				Quick: map[string]int{"rmax": 2, "classes": 14}, Thorough: map[string]int{"rmax": 3, "classes": 14},
				Reach:     []string{"single", "batch of several", "empty batch"},
				Functions: []string{"(*Gateway).Handler", "(*Gateway).queryHandler", "(*Gateway).queryHandler$1", "(*Gateway).queryHandler$2", "Results.Emit", "emitError", "(*Gateway).parseIntrospectionQuery", "(*Gateway).getQueryers", "requests.Parse", "requests.parseRequest", "common.AsyncMapReduce[int,*Result,Results]", "planner.SequentialPlanner.Plan", "introspection.(*IntrospectionResolver).ResolveIntrospectionFields", "gqlerrors.FormatError"}},
		},
		Assume: []string{
			"the executor is a harness fake behind executor.Executor (what the real one computes is C01); the planner is the real one behind a wrapper that can fail",
			"gqlparser.LoadQuery runs natively on the concrete operation strings of the pool",
			"engine's model of channels/WaitGroup/select; encoding/json = abstract codec",
		},
		Outside: []string{"batches longer than rmax", "operations outside the 11-class pool"},
	})
}
