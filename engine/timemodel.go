package main

// symbolic monotone clock: every reading is a fresh Int constrained to be >= the previous one
func (m *Machine) now() Value {
	s := m.ex.fresh(m, "Int", "clock")
	if m.lastClock != nil {
		m.ex.addPC(m, "(>= "+s.E+" "+smtInt(m.lastClock)+")")
	} else {
		m.ex.addPC(m, "(>= "+s.E+" 0)")
	}
	s.Lo, s.Hi = 0, satHi
	m.lastClock = s
	return s
}
