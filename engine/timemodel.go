package main

// symbolic monotone clock: every reading is a fresh Int constrained to be >= the previous one
func (m *Machine) now() Value {
	s := m.ex.fresh(m, "Int", "clock")
	if m.lastClock != nil {
		m.ex.addPC(m, "(>= "+s.E+" "+smtInt(m.lastClock)+")")
	} else {
		m.ex.addPC(m, "(>= "+s.E+" 0)")
	}
	s.Lo, s.Hi = 0, satHi
	m.lastClock = s
	return s
}

// time.Time is modelled as the real struct {wall, ext, loc} with wall = 0, loc = nil and ext = a
// (symbolic) number of nanoseconds on the monotone clock.
func timeVal(ns Value) Value { return Struct{int64(0), ns, Ptr(nil)} }
func timeNs(v Value) Value   { return v.(Struct)[1] }

func init() {
	R("time.Now", func(m *Machine, a []Value) Value { return timeVal(m.now()) })
	R("(time.Time).UTC", func(m *Machine, a []Value) Value { return a[0] })
	R("(time.Time).Local", func(m *Machine, a []Value) Value { return a[0] })
	R("(time.Time).Add", func(m *Machine, a []Value) Value {
		x, d := timeNs(a[0]), a[1]
		if xc, ok := x.(int64); ok {
			if dc, ok := d.(int64); ok {
				return timeVal(xc + dc)
			}
		}
		return timeVal(mkArith("+", x, d))
	})
	R("(time.Time).Before", func(m *Machine, a []Value) Value { return mkCmp("<", timeNs(a[0]), timeNs(a[1])) })
	R("(time.Time).After", func(m *Machine, a []Value) Value { return mkCmp(">", timeNs(a[0]), timeNs(a[1])) })
	R("(time.Time).Equal", func(m *Machine, a []Value) Value { return mkCmp("=", timeNs(a[0]), timeNs(a[1])) })
	R("(time.Time).IsZero", func(m *Machine, a []Value) Value { return mkCmp("=", timeNs(a[0]), int64(0)) })
	R("(time.Time).Sub", func(m *Machine, a []Value) Value {
		x, y := timeNs(a[0]), timeNs(a[1])
		if xc, ok := x.(int64); ok {
			if yc, ok := y.(int64); ok {
				return xc - yc
			}
		}
		return mkArith("-", x, y)
	})
	R("time.Since", func(m *Machine, a []Value) Value { return mkArith("-", m.now(), timeNs(a[0])) })
	R("(time.Time).UnixNano", func(m *Machine, a []Value) Value { return timeNs(a[0]) })
	R("(time.Time).Unix", func(m *Machine, a []Value) Value { return mkQuoRem(true, timeNs(a[0]), int64(1000000000)) })
	R("time.Sleep", func(m *Machine, a []Value) Value { return nil })
}
