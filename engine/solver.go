package main

import (
	"bufio"
	"fmt"
	"io"
	"os/exec"
	"sort"
	"strconv"
	"strings"
	"sync"
	"sync/atomic"
	"time"
)

// Solver drives one long-lived SMT solver process (z3 -in, or cvc5 --incremental)
// with push/pop along the current path condition.
type Solver struct {
	kind  string // "z3" | "cvc5"
	cmd   *exec.Cmd
	in    io.WriteCloser
	out   *bufio.Reader
	decls map[string]bool
	seq   int
	depth int // assertion levels pushed for the current path (0 or 1)
	stats *SolverStats
	cache map[string]string
	log   *queryLog
}

type SolverStats struct {
	Queries, Sat, Unsat, Unknown, CacheHits int64
	Nanos                                   int64
}

// queryLog collects distinct self-contained queries for cross-checking with a second solver.
type queryLog struct {
	mu   sync.Mutex
	seen map[string]string // query text -> verdict
}

func NewSolver(kind string, stats *SolverStats, ql *queryLog) *Solver {
	var cmd *exec.Cmd
	switch kind {
	case "cvc5":
		cmd = exec.Command("cvc5", "--incremental", "--strings-exp", "--global-declarations", "--tlimit-per=60000", "--lang=smt2", "--produce-models")
	default:
		kind = "z3"
		cmd = exec.Command("z3", "-in", "-t:10000")
	}
	in, _ := cmd.StdinPipe()
	out, _ := cmd.StdoutPipe()
	cmd.Stderr = nil
	if err := cmd.Start(); err != nil {
		panic(err)
	}
	s := &Solver{kind: kind, cmd: cmd, in: in, out: bufio.NewReader(out), decls: map[string]bool{}, stats: stats, cache: map[string]string{}, log: ql}
	if kind == "z3" {
		fmt.Fprintf(s.in, "(set-option :global-declarations true)\n")
	} else {
		fmt.Fprintf(s.in, "(set-logic ALL)\n")
	}
	return s
}

func (s *Solver) Close() {
	s.in.Close()
	s.cmd.Process.Kill()
	s.cmd.Wait()
}

func (s *Solver) Declare(name, sort string) {
	if s.decls[name] {
		return
	}
	s.decls[name] = true
	fmt.Fprintf(s.in, "(declare-const %s %s)\n", name, sort)
}

// BeginPath opens the assertion scope of a path; EndPath discards it.
func (s *Solver) BeginPath() {
	if s.depth > 0 {
		s.EndPath()
	}
	fmt.Fprintf(s.in, "(push 1)\n")
	s.depth = 1
}

func (s *Solver) EndPath() {
	if s.depth > 0 {
		fmt.Fprintf(s.in, "(pop 1)\n")
		s.depth = 0
	}
}

func (s *Solver) Assert(c string) {
	fmt.Fprintf(s.in, "(assert %s)\n", c)
}

func (s *Solver) readLine() string {
	line, err := s.out.ReadString('\n')
	if err != nil {
		return "unknown:solver-died:" + err.Error()
	}
	return strings.TrimSpace(line)
}

// readVerdict synchronises on an echo marker so that a stray "(error ...)" line
// (from any earlier command) can never be mistaken for, or shift, a verdict.
func (s *Solver) readVerdict() string {
	s.seq++
	marker := fmt.Sprintf("##%d", s.seq)
	fmt.Fprintf(s.in, "(echo \"%s\")\n", marker)
	var lines []string
	for {
		l := s.readLine()
		if strings.Trim(l, "\"") == marker {
			break
		}
		if strings.HasPrefix(l, "unknown:solver-died") {
			return l
		}
		if l != "" {
			lines = append(lines, l)
		}
	}
	if len(lines) == 1 && (lines[0] == "sat" || lines[0] == "unsat") {
		return lines[0]
	}
	return "unknown:" + strings.Join(lines, " / ")
}

func pcKey(pc []string, q string) string {
	cp := append([]string{}, pc...)
	sort.Strings(cp)
	var sb strings.Builder
	last := ""
	for _, c := range cp {
		if c != last {
			sb.WriteString(c)
			sb.WriteByte('\n')
		}
		last = c
	}
	sb.WriteString("|")
	sb.WriteString(q)
	return sb.String()
}

// Check decides satisfiability of (current path condition ∧ q). pc is only used as the cache key / log.
func (s *Solver) Check(pc []string, q string, declsText func() string) string {
	key := pcKey(pc, q)
	if r, ok := s.cache[key]; ok {
		atomic.AddInt64(&s.stats.CacheHits, 1)
		return r
	}
	t0 := time.Now()
	fmt.Fprintf(s.in, "(push 1)\n(assert %s)\n(check-sat)\n(pop 1)\n", q)
	r := s.readVerdict()
	atomic.AddInt64(&s.stats.Nanos, int64(time.Since(t0)))
	atomic.AddInt64(&s.stats.Queries, 1)
	switch r {
	case "sat":
		atomic.AddInt64(&s.stats.Sat, 1)
	case "unsat":
		atomic.AddInt64(&s.stats.Unsat, 1)
	default:
		atomic.AddInt64(&s.stats.Unknown, 1)
		if !strings.HasPrefix(r, "unknown") {
			r = "unknown:" + r
		}
	}
	s.cache[key] = r
	if s.log != nil && declsText != nil {
		s.log.add(declsText(), pc, q, r)
	}
	return r
}

// Values returns model values of exprs under (pc ∧ q); ok=false if not sat.
func (s *Solver) Values(q string, exprs []string) (vals []string, verdict string) {
	t0 := time.Now()
	fmt.Fprintf(s.in, "(push 1)\n(assert %s)\n(check-sat)\n", q)
	r := s.readVerdict()
	atomic.AddInt64(&s.stats.Queries, 1)
	if r != "sat" {
		fmt.Fprintf(s.in, "(pop 1)\n")
		atomic.AddInt64(&s.stats.Nanos, int64(time.Since(t0)))
		if r == "unsat" {
			atomic.AddInt64(&s.stats.Unsat, 1)
		} else {
			atomic.AddInt64(&s.stats.Unknown, 1)
			r = "unknown:" + r
		}
		return nil, r
	}
	atomic.AddInt64(&s.stats.Sat, 1)
	for _, e := range exprs {
		fmt.Fprintf(s.in, "(get-value (%s))\n", e)
		vals = append(vals, parseGetValue(s.readSexp(), e))
	}
	fmt.Fprintf(s.in, "(pop 1)\n")
	atomic.AddInt64(&s.stats.Nanos, int64(time.Since(t0)))
	return vals, "sat"
}

// readSexp reads one balanced s-expression (possibly spanning lines)
func (s *Solver) readSexp() string {
	var sb strings.Builder
	depth := 0
	started := false
	inStr := false
	for {
		b, err := s.out.ReadByte()
		if err != nil {
			return sb.String()
		}
		sb.WriteByte(b)
		if inStr {
			if b == '"' {
				inStr = false
			}
			continue
		}
		switch b {
		case '"':
			inStr = true
		case '(':
			depth++
			started = true
		case ')':
			depth--
		}
		if started && depth == 0 {
			// consume trailing newline
			s.out.ReadString('\n')
			return strings.TrimSpace(sb.String())
		}
	}
}

// parseGetValue extracts VALUE from "((expr VALUE))"
func parseGetValue(line, expr string) string {
	line = strings.TrimSpace(line)
	line = strings.TrimSuffix(line, "))")
	line = strings.TrimPrefix(line, "((")
	// the expression is echoed; value follows it
	if strings.HasPrefix(line, expr) {
		return strings.TrimSpace(line[len(expr):])
	}
	// fall back: last balanced token
	idx := strings.LastIndex(line, expr)
	if idx >= 0 {
		return strings.TrimSpace(line[idx+len(expr):])
	}
	return line
}

func parseSMTInt(val string) (int64, bool) {
	val = strings.TrimSpace(val)
	neg := false
	if strings.HasPrefix(val, "(-") {
		neg = true
		val = strings.TrimSpace(strings.TrimSuffix(strings.TrimPrefix(val, "(-"), ")"))
	}
	v, err := strconv.ParseInt(val, 10, 64)
	if err != nil {
		return 0, false
	}
	if neg {
		v = -v
	}
	return v, true
}

func (l *queryLog) add(decls string, pc []string, q, verdict string) {
	if verdict != "sat" && verdict != "unsat" {
		return
	}
	var sb strings.Builder
	sb.WriteString(decls)
	cp := append([]string{}, pc...)
	sort.Strings(cp)
	last := ""
	for _, c := range cp {
		if c != last {
			sb.WriteString("(assert " + c + ")\n")
		}
		last = c
	}
	sb.WriteString("(assert " + q + ")\n(check-sat)\n")
	l.mu.Lock()
	if len(l.seen) < 20000 {
		l.seen[sb.String()] = verdict
	}
	l.mu.Unlock()
}

// crossCheck replays every logged query on a second solver (one-shot, (reset) between queries).
func (l *queryLog) crossCheck(bin string, args []string, max int) (checked, disagreements int, firstBad string) {
	l.mu.Lock()
	qs := make([]string, 0, len(l.seen))
	for q := range l.seen {
		qs = append(qs, q)
	}
	l.mu.Unlock()
	sort.Strings(qs)
	if len(qs) > max {
		qs = qs[:max]
	}
	if len(qs) == 0 {
		return
	}
	cmd := exec.Command(bin, args...)
	in, _ := cmd.StdinPipe()
	out, _ := cmd.StdoutPipe()
	if err := cmd.Start(); err != nil {
		return 0, 0, "cannot start " + bin
	}
	rd := bufio.NewReader(out)
	defer func() { in.Close(); cmd.Process.Kill(); cmd.Wait() }()
	for _, q := range qs {
		fmt.Fprintf(in, "(reset)\n(set-logic ALL)\n%s", q)
		line, err := rd.ReadString('\n')
		if err != nil {
			return checked, disagreements, "second solver died"
		}
		r := strings.TrimSpace(line)
		checked++
		if (r == "sat" || r == "unsat") && r != l.seen[q] {
			disagreements++
			if firstBad == "" {
				firstBad = q + " ; first=" + l.seen[q] + " second=" + r
			}
		}
	}
	return
}
