package main

import (
	"bytes"
	"encoding/json"
	"fmt"
	"go/types"
	"io"
	"math"
	"reflect"
	"sort"
	"strconv"
	"strings"
	"sync"

	"golang.org/x/tools/go/ssa"
)

// Abstract JSON codec (DESIGN §2.6). A JSON document is a "generic tree" (GT) of interpreter
// values in exactly the shape encoding/json produces when decoding into interface{}:
//
//	null    Iface{}
//	bool    Iface{bool, v}
//	number  Iface{float64, f} (after decoding) | Iface{<int type>, i} (produced by encoding an integer)
//	string  Iface{string, s}     s may be a symbolic string token
//	array   Iface{[]interface{}, *SliceV}
//	object  Iface{map[string]interface{}, *MapV}   (member order = emission order)
//
// Typed encoding/decoding follows the documented rules of encoding/json, driven by go/types
// (struct tags, case-folded names, null handling, slice re-slicing to the array length, type
// mismatch errors). Concrete documents travel as real bytes produced/parsed by the real
// encoding/json; only trees with symbolic leaves travel as an opaque *JSONBlob.

type JSONBlob struct{ V Value }

var (
	tEmptyIface = types.NewInterfaceType(nil, nil).Complete()
	tAnySlice   = types.NewSlice(tEmptyIface)
	tAnyMap     = types.NewMap(types.Typ[types.String], tEmptyIface)
)

func gtNull() Value         { return Iface{} }
func gtStr(s Value) Value   { return Iface{T: types.Typ[types.String], V: s} }
func gtBool(b Value) Value  { return Iface{T: types.Typ[types.Bool], V: b} }
func gtNum(f float64) Value { return Iface{T: types.Typ[types.Float64], V: f} }
func gtArr(a []Value) Value { return Iface{T: tAnySlice, V: &SliceV{A: a}} }
func gtObj(mp *MapV) Value  { return Iface{T: tAnyMap, V: mp} }
func isNullGT(v Value) bool { i, ok := v.(Iface); return ok && i.T == nil }
func gtKind(v Value) string {
	i, ok := v.(Iface)
	if !ok {
		return fmt.Sprintf("?%T", v)
	}
	if i.T == nil {
		return "null"
	}
	switch u := i.T.Underlying().(type) {
	case *types.Basic:
		switch {
		case u.Info()&types.IsBoolean != 0:
			return "bool"
		case u.Info()&types.IsString != 0:
			return "string"
		case u.Info()&types.IsNumeric != 0:
			return "number"
		}
	case *types.Slice:
		return "array"
	case *types.Map:
		return "object"
	}
	return "?" + i.T.String()
}

// gtFromNative imports the result of a native json.Unmarshal into interface{}
func gtFromNative(x interface{}) Value {
	switch x := x.(type) {
	case nil:
		return gtNull()
	case bool:
		return gtBool(x)
	case float64:
		return gtNum(x)
	case int:
		return gtNum(float64(x))
	case string:
		return gtStr(x)
	case []interface{}:
		a := make([]Value, len(x))
		for i, e := range x {
			a[i] = gtFromNative(e)
		}
		return gtArr(a)
	case map[string]interface{}:
		keys := make([]string, 0, len(x))
		for k := range x {
			keys = append(keys, k)
		}
		sort.Strings(keys)
		mp := &MapV{}
		for _, k := range keys {
			mp.Keys = append(mp.Keys, k)
			mp.Vals = append(mp.Vals, gtFromNative(x[k]))
		}
		mp.reindex()
		return gtObj(mp)
	case []map[string]interface{}:
		a := make([]Value, len(x))
		for i, e := range x {
			a[i] = gtFromNative(e)
		}
		return gtArr(a)
	}
	panic(fmt.Sprintf("gtFromNative %T", x))
}

// exportJSON converts a generic tree (or raw *MapV/*SliceV of generic values) to native Go
func (m *Machine) exportJSON(v Value) interface{} {
	switch v := v.(type) {
	case nil:
		return nil
	case Iface:
		if v.T == nil {
			return nil
		}
		if b, ok := v.T.Underlying().(*types.Basic); ok && b.Info()&types.IsInteger != 0 {
			return float64(m.concInt(v.V, "export json"))
		}
		return m.exportJSON(v.V)
	case string, bool, float64:
		return v
	case int64:
		return float64(v)
	case *Sym:
		if v.Sort == "Bool" {
			return m.truth(v)
		}
		return float64(m.concInt(v, "export json"))
	case *StrNum, *StrAtom, *StrCat:
		return m.concStr(v, "export json")
	case *MapV:
		if v == nil {
			return map[string]interface{}(nil)
		}
		out := map[string]interface{}{}
		for i, k := range v.Keys {
			out[m.concStr(k, "export json key")] = m.exportJSON(v.Vals[i])
		}
		return out
	case *SliceV:
		if v == nil || v.Nil {
			return []interface{}(nil)
		}
		l := make([]interface{}, len(v.A))
		for i, x := range v.A {
			l[i] = m.exportJSON(x)
		}
		return l
	case Ptr:
		if v == nil {
			return nil
		}
		return fmt.Sprintf("<ptr %T>", *v)
	}
	return fmt.Sprintf("<%T>", v)
}

func gtConcrete(v Value) bool {
	switch v := v.(type) {
	case Iface:
		if v.T == nil {
			return true
		}
		return gtConcrete(v.V)
	case string, bool, float64, int64:
		return true
	case *MapV:
		if v == nil {
			return true
		}
		for i := range v.Keys {
			if _, ok := v.Keys[i].(string); !ok {
				return false
			}
			if !gtConcrete(v.Vals[i]) {
				return false
			}
		}
		return true
	case *SliceV:
		if v == nil {
			return true
		}
		for _, x := range v.A {
			if !gtConcrete(x) {
				return false
			}
		}
		return true
	}
	return false
}

// gtRender writes the JSON text of a concrete generic tree, preserving member order.
func (m *Machine) gtRender(sb *strings.Builder, v Value) {
	i := v.(Iface)
	switch gtKind(v) {
	case "null":
		sb.WriteString("null")
	case "bool":
		if i.V.(bool) {
			sb.WriteString("true")
		} else {
			sb.WriteString("false")
		}
	case "number":
		switch x := i.V.(type) {
		case int64:
			sb.WriteString(strconv.FormatInt(x, 10))
		case float64:
			b, err := json.Marshal(x)
			if err != nil {
				m.fail("unsupported", "json: unsupported float value")
			}
			sb.Write(b)
		}
	case "string":
		b, _ := json.Marshal(i.V.(string))
		sb.Write(b)
	case "array":
		sl := i.V.(*SliceV)
		sb.WriteByte('[')
		for k, e := range sl.A {
			if k > 0 {
				sb.WriteByte(',')
			}
			m.gtRender(sb, e)
		}
		sb.WriteByte(']')
	case "object":
		mp := i.V.(*MapV)
		sb.WriteByte('{')
		for k := range mp.Keys {
			if k > 0 {
				sb.WriteByte(',')
			}
			b, _ := json.Marshal(mp.Keys[k].(string))
			sb.Write(b)
			sb.WriteByte(':')
			m.gtRender(sb, mp.Vals[k])
		}
		sb.WriteByte('}')
	default:
		m.fail("unsupported", "gtRender "+gtKind(v))
	}
}

func (m *Machine) jsonText(j *JSONBlob) Value {
	if !gtConcrete(j.V) {
		// concretise the symbolic leaves (case split) and render
		nat := m.exportJSON(j.V)
		b, _ := json.Marshal(nat)
		return string(b)
	}
	var sb strings.Builder
	m.gtRender(&sb, j.V)
	return sb.String()
}

type fieldInfo struct {
	idx       int
	name      string
	omitEmpty bool
	typ       types.Type
	asString  bool
}

var fieldCache sync.Map

func structFields(st *types.Struct) []fieldInfo {
	if fi, ok := fieldCache.Load(st); ok {
		return fi.([]fieldInfo)
	}
	var out []fieldInfo
	for i := 0; i < st.NumFields(); i++ {
		f := st.Field(i)
		if !f.Exported() {
			continue
		}
		tag := reflect.StructTag(st.Tag(i)).Get("json")
		if tag == "-" {
			continue
		}
		name := f.Name()
		parts := strings.Split(tag, ",")
		if parts[0] != "" {
			name = parts[0]
		}
		fi := fieldInfo{idx: i, name: name, typ: f.Type()}
		for _, o := range parts[1:] {
			switch o {
			case "omitempty":
				fi.omitEmpty = true
			case "string":
				fi.asString = true
			}
		}
		out = append(out, fi)
	}
	fieldCache.Store(st, out)
	return out
}

func isEmptyValue(v Value) bool {
	switch v := v.(type) {
	case bool:
		return !v
	case int64:
		return v == 0
	case float64:
		return v == 0
	case string:
		return v == ""
	case Ptr:
		return v == nil
	case Iface:
		return v.T == nil
	case *SliceV:
		return v == nil || len(v.A) == 0
	case *MapV:
		return v == nil || len(v.Keys) == 0
	case Array:
		return len(v) == 0
	}
	return false
}

func (m *Machine) hasMethod(t types.Type, name string) bool {
	ms := m.prog.MethodSets.MethodSet(t)
	for i := 0; i < ms.Len(); i++ {
		if ms.At(i).Obj().Name() == name {
			return true
		}
	}
	return false
}

// jsonEncode converts a typed interpreter value into a generic tree.
func (m *Machine) jsonEncode(t types.Type, v Value, depth int) Value {
	if depth > 1024 {
		m.fail("unsupported", "json: encoding deeper than 1024 levels (cycle?)")
	}
	if _, isIface := t.Underlying().(*types.Interface); !isIface {
		if m.hasMethod(t, "MarshalJSON") || m.hasMethod(t, "MarshalText") {
			m.fail("unsupported", "json: type "+t.String()+" has a custom marshaler (not modelled)")
		}
	}
	switch u := t.Underlying().(type) {
	case *types.Interface:
		i := v.(Iface)
		if i.T == nil {
			return gtNull()
		}
		return m.jsonEncode(i.T, i.V, depth+1)
	case *types.Pointer:
		p := v.(Ptr)
		if p == nil {
			return gtNull()
		}
		if _, isOpaque := (*p).(*Opaque); isOpaque {
			// an engine-modelled library object (file, connection): encoding/json would emit its exported
			// fields; what matters to the checks is that it is a non-null object
			return gtObj(&MapV{})
		}
		return m.jsonEncode(u.Elem(), *p, depth+1)
	case *types.Struct:
		s := v.(Struct)
		mp := &MapV{}
		for _, f := range structFields(u) {
			fv := s[f.idx]
			if f.omitEmpty && isEmptyValue(fv) {
				continue
			}
			mp.Keys = append(mp.Keys, f.name)
			mp.Vals = append(mp.Vals, m.jsonEncode(f.typ, fv, depth+1))
		}
		mp.reindex()
		return gtObj(mp)
	case *types.Map:
		mv := v.(*MapV)
		if mv == nil {
			return gtNull()
		}
		if b, ok := u.Key().Underlying().(*types.Basic); !ok || b.Info()&types.IsString == 0 {
			m.fail("unsupported", "json: map with non-string key")
		}
		type kv struct {
			k string
			v Value
		}
		var kvs []kv
		allConc := true
		for i := range mv.Keys {
			s, ok := mv.Keys[i].(string)
			if !ok {
				allConc = false
				s = m.concStr(mv.Keys[i], "json map key")
			}
			kvs = append(kvs, kv{s, mv.Vals[i]})
		}
		_ = allConc
		sort.SliceStable(kvs, func(i, j int) bool { return kvs[i].k < kvs[j].k })
		mp := &MapV{}
		for _, e := range kvs {
			mp.Keys = append(mp.Keys, e.k)
			mp.Vals = append(mp.Vals, m.jsonEncode(u.Elem(), e.v, depth+1))
		}
		mp.reindex()
		return gtObj(mp)
	case *types.Slice:
		sv := v.(*SliceV)
		if sv == nil || sv.Nil {
			return gtNull()
		}
		if b, ok := u.Elem().Underlying().(*types.Basic); ok && b.Kind() == types.Uint8 {
			m.fail("unsupported", "json: []byte encoding (base64) not modelled")
		}
		a := make([]Value, len(sv.A))
		for i, e := range sv.A {
			a[i] = m.jsonEncode(u.Elem(), e, depth+1)
		}
		return gtArr(a)
	case *types.Array:
		av := v.(Array)
		a := make([]Value, len(av))
		for i, e := range av {
			a[i] = m.jsonEncode(u.Elem(), e, depth+1)
		}
		return gtArr(a)
	case *types.Basic:
		switch {
		case u.Info()&types.IsBoolean != 0:
			return gtBool(v)
		case u.Info()&types.IsString != 0:
			return gtStr(v)
		case u.Info()&types.IsInteger != 0:
			return Iface{T: types.Typ[types.Int64], V: v}
		case u.Info()&types.IsFloat != 0:
			if sy, ok := v.(*Sym); ok {
				return Iface{T: types.Typ[types.Float64], V: sy}
			}
			f := v.(float64)
			if math.IsNaN(f) || math.IsInf(f, 0) {
				m.fail("unsupported", "json: unsupported value NaN/Inf")
			}
			return gtNum(f)
		}
	case *types.Signature, *types.Chan:
		return nil // signals UnsupportedTypeError
	}
	m.fail("unsupported", "json: cannot encode "+t.String())
	return nil
}

type decState struct {
	m        *Machine
	firstErr string
}

func (d *decState) saveErr(s string) {
	if d.firstErr == "" {
		d.firstErr = s
	}
}

// natural returns the value encoding/json stores into an empty interface
func (d *decState) natural(gt Value) Value {
	i := gt.(Iface)
	switch gtKind(gt) {
	case "null":
		return Iface{}
	case "number":
		switch x := i.V.(type) {
		case int64:
			return gtNum(float64(x))
		case *Sym:
			return Iface{T: types.Typ[types.Float64], V: x}
		}
		return gt
	case "array":
		sl := i.V.(*SliceV)
		a := make([]Value, len(sl.A))
		for k, e := range sl.A {
			a[k] = d.natural(e)
		}
		return gtArr(a)
	case "object":
		mp := i.V.(*MapV)
		n := &MapV{}
		for k := range mp.Keys {
			n.set(d.m, mp.Keys[k], d.natural(mp.Vals[k]))
		}
		return gtObj(n)
	}
	return gt
}

func (d *decState) decode(gt Value, t types.Type, dst *Value) {
	m := d.m
	m.touch(dst)
	kind := gtKind(gt)
	if _, isIface := t.Underlying().(*types.Interface); !isIface {
		if m.hasMethod(ptrTo(t), "UnmarshalJSON") || m.hasMethod(ptrTo(t), "UnmarshalText") {
			m.fail("unsupported", "json: type "+t.String()+" has a custom unmarshaler (not modelled)")
		}
	}
	typeErr := func() {
		d.saveErr("json: cannot unmarshal " + kind + " into Go value of type " + types.TypeString(t, func(p *types.Package) string { return p.Name() }))
	}
	switch u := t.Underlying().(type) {
	case *types.Interface:
		if u.NumMethods() != 0 {
			if kind == "null" {
				*dst = Iface{}
				return
			}
			typeErr()
			return
		}
		// decoding into a non-nil interface holding a non-nil pointer decodes into the pointee
		if cur, ok := (*dst).(Iface); ok && cur.T != nil && kind != "null" {
			if pt, ok := cur.T.(*types.Pointer); ok {
				if p, ok := cur.V.(Ptr); ok && p != nil {
					d.decode(gt, pt.Elem(), p)
					return
				}
			}
		}
		*dst = d.natural(gt)
	case *types.Pointer:
		if kind == "null" {
			*dst = Ptr(nil)
			return
		}
		p, _ := (*dst).(Ptr)
		if p == nil {
			p = newCell(zero(u.Elem()))
			*dst = p
		}
		d.decode(gt, u.Elem(), p)
	case *types.Struct:
		if kind == "null" {
			return
		}
		if kind != "object" {
			typeErr()
			return
		}
		s := (*dst).(Struct)
		fields := structFields(u)
		mp := gt.(Iface).V.(*MapV)
		for k := range mp.Keys {
			key := m.concStr(mp.Keys[k], "json member name")
			var f *fieldInfo
			for i := range fields {
				if fields[i].name == key {
					f = &fields[i]
					break
				}
			}
			if f == nil {
				for i := range fields {
					if strings.EqualFold(fields[i].name, key) {
						f = &fields[i]
						break
					}
				}
			}
			if f == nil {
				continue
			}
			d.decode(mp.Vals[k], f.typ, &s[f.idx])
		}
	case *types.Map:
		if kind == "null" {
			*dst = (*MapV)(nil)
			return
		}
		if kind != "object" {
			typeErr()
			return
		}
		if b, ok := u.Key().Underlying().(*types.Basic); !ok || b.Info()&types.IsString == 0 {
			m.fail("unsupported", "json: map with non-string key")
		}
		mv, _ := (*dst).(*MapV)
		if mv == nil {
			mv = &MapV{}
			*dst = mv
		}
		src := gt.(Iface).V.(*MapV)
		for k := range src.Keys {
			ev := zero(u.Elem())
			d.decode(src.Vals[k], u.Elem(), &ev)
			mv.set(m, src.Keys[k], ev)
		}
	case *types.Slice:
		if kind == "null" {
			*dst = &SliceV{Nil: true}
			return
		}
		if kind != "array" {
			if kind == "string" {
				if b, ok := u.Elem().Underlying().(*types.Basic); ok && b.Kind() == types.Uint8 {
					m.fail("unsupported", "json: base64 decoding into []byte not modelled")
				}
			}
			typeErr()
			return
		}
		src := gt.(Iface).V.(*SliceV)
		cur, _ := (*dst).(*SliceV)
		var base []Value
		if cur != nil {
			base = cur.A
		}
		es := sizes.Sizeof(u.Elem())
		i := 0
		for _, e := range src.A {
			if i >= cap(base) {
				// reflect.Value.Grow(1): growslice of len+1
				nc := growCap(int64(cap(base)), int64(cap(base))+1, es)
				nb := make([]Value, len(base), nc)
				copy(nb, base)
				full := nb[:nc]
				for k := len(base); k < int(nc); k++ {
					full[k] = zero(u.Elem())
				}
				base = nb
			}
			if i >= len(base) {
				base = base[:i+1]
			}
			d.decode(e, u.Elem(), &base[i])
			i++
		}
		if i < len(base) {
			base = base[:i]
		}
		if i == 0 {
			base = make([]Value, 0)
		}
		*dst = &SliceV{A: base}
	case *types.Array:
		if kind == "null" {
			return
		}
		if kind != "array" {
			typeErr()
			return
		}
		src := gt.(Iface).V.(*SliceV)
		arr := (*dst).(Array)
		for i := range arr {
			if i < len(src.A) {
				d.decode(src.A[i], u.Elem(), &arr[i])
			} else {
				arr[i] = zero(u.Elem())
			}
		}
	case *types.Basic:
		if kind == "null" {
			return
		}
		payload := gt.(Iface).V
		switch {
		case u.Info()&types.IsBoolean != 0:
			if kind != "bool" {
				typeErr()
				return
			}
			*dst = payload
		case u.Info()&types.IsString != 0:
			if kind != "string" {
				typeErr()
				return
			}
			*dst = payload
		case u.Info()&types.IsInteger != 0:
			if kind != "number" {
				typeErr()
				return
			}
			switch x := payload.(type) {
			case int64:
				*dst = m.wrapInt(x, t)
			case *Sym:
				*dst = x
			case float64:
				if x != math.Trunc(x) || math.Abs(x) > 1e18 {
					d.saveErr("json: cannot unmarshal number " + strconv.FormatFloat(x, 'g', -1, 64) + " into Go value of type " + t.String())
					return
				}
				if isUnsigned(t) && x < 0 {
					d.saveErr("json: cannot unmarshal number " + strconv.FormatFloat(x, 'g', -1, 64) + " into Go value of type " + t.String())
					return
				}
				*dst = int64(x)
			}
		case u.Info()&types.IsFloat != 0:
			if kind != "number" {
				typeErr()
				return
			}
			switch x := payload.(type) {
			case int64:
				*dst = float64(x)
			default:
				*dst = x
			}
		default:
			typeErr()
		}
	default:
		typeErr()
	}
}

// parseJSONBytes turns a byte-slice value into a generic tree (via the real encoding/json for concrete bytes)
func (m *Machine) parseJSONBytes(v Value) (Value, string) {
	sv, _ := v.(*SliceV)
	if sv != nil && len(sv.A) == 1 {
		if j, ok := sv.A[0].(*JSONBlob); ok {
			return j.V, ""
		}
	}
	var b []byte
	var leaves []*JSONLeaf
	if sv != nil {
		for _, e := range sv.A {
			switch e := e.(type) {
			case int64:
				b = append(b, byte(e))
			case *JSONLeaf:
				ph := fmt.Sprintf("@@LEAF%d@@", len(leaves))
				leaves = append(leaves, e)
				if e.Kind == "string" {
					b = append(b, ph...)
				} else {
					b = append(b, (`"` + ph + `"`)...)
				}
			case *StrBlob:
				b = append(b, m.concStr(e.S, "json bytes")...)
			default:
				m.fail("unsupported", fmt.Sprintf("byte slice element %T in JSON input", e))
			}
		}
	}
	var x interface{}
	if err := json.Unmarshal(b, &x); err != nil {
		return nil, err.Error()
	}
	if len(leaves) > 0 {
		return substLeaves(x, leaves), ""
	}
	return gtFromNative(x), ""
}

func (m *Machine) jsonBytes(gt Value) Value {
	if gtConcrete(gt) {
		var sb strings.Builder
		m.gtRender(&sb, gt)
		return bytesVal([]byte(sb.String()))
	}
	var out []Value
	m.gtRenderHybrid(&out, gt)
	return &SliceV{A: out}
}

// JSONLeaf is a symbolic leaf embedded in an otherwise concrete JSON byte sequence.
type JSONLeaf struct {
	Kind string // "string" (sits between the quotes) | "number" | "bool"
	V    Value
}

func appendBytes(out *[]Value, s string) {
	for i := 0; i < len(s); i++ {
		*out = append(*out, int64(s[i]))
	}
}

// gtRenderHybrid renders a tree with symbolic leaves: concrete text as bytes, leaves as placeholders.
func (m *Machine) gtRenderHybrid(out *[]Value, v Value) {
	if gtConcrete(v) {
		var sb strings.Builder
		m.gtRender(&sb, v)
		appendBytes(out, sb.String())
		return
	}
	i := v.(Iface)
	switch gtKind(v) {
	case "bool":
		*out = append(*out, &JSONLeaf{"bool", i.V})
	case "number":
		*out = append(*out, &JSONLeaf{"number", i.V})
	case "string":
		appendBytes(out, `"`)
		*out = append(*out, &JSONLeaf{"string", i.V})
		appendBytes(out, `"`)
	case "array":
		sl := i.V.(*SliceV)
		appendBytes(out, "[")
		for k, e := range sl.A {
			if k > 0 {
				appendBytes(out, ",")
			}
			m.gtRenderHybrid(out, e)
		}
		appendBytes(out, "]")
	case "object":
		mp := i.V.(*MapV)
		appendBytes(out, "{")
		for k := range mp.Keys {
			if k > 0 {
				appendBytes(out, ",")
			}
			if ks, ok := mp.Keys[k].(string); ok {
				b, _ := json.Marshal(ks)
				appendBytes(out, string(b))
			} else {
				appendBytes(out, `"`)
				*out = append(*out, &JSONLeaf{"string", mp.Keys[k]})
				appendBytes(out, `"`)
			}
			appendBytes(out, ":")
			m.gtRenderHybrid(out, mp.Vals[k])
		}
		appendBytes(out, "}")
	default:
		m.fail("unsupported", "gtRenderHybrid "+gtKind(v))
	}
}

// substLeaves replaces placeholder strings by the symbolic leaves they stand for
func substLeaves(x interface{}, leaves []*JSONLeaf) Value {
	switch x := x.(type) {
	case string:
		if strings.HasPrefix(x, "@@LEAF") && strings.HasSuffix(x, "@@") {
			if n, err := strconv.Atoi(x[6 : len(x)-2]); err == nil && n < len(leaves) {
				l := leaves[n]
				switch l.Kind {
				case "string":
					return gtStr(l.V)
				case "bool":
					return gtBool(l.V)
				case "number":
					return Iface{T: types.Typ[types.Float64], V: l.V}
				}
			}
		}
		return gtStr(x)
	case []interface{}:
		a := make([]Value, len(x))
		for i, e := range x {
			a[i] = substLeaves(e, leaves)
		}
		return gtArr(a)
	case map[string]interface{}:
		keys := make([]string, 0, len(x))
		for k := range x {
			keys = append(keys, k)
		}
		sort.Strings(keys)
		mp := &MapV{}
		for _, k := range keys {
			kv := substLeaves(k, leaves).(Iface).V
			mp.set(nil, kv, substLeaves(x[k], leaves))
		}
		return gtObj(mp)
	}
	return gtFromNative(x)
}

func (m *Machine) jsonMarshal(x Value) (Value, Value) {
	i := x.(Iface)
	if i.T == nil {
		return bytesVal([]byte("null")), Iface{}
	}
	gt := m.jsonEncode(i.T, i.V, 0)
	if gt == nil {
		return &SliceV{Nil: true}, m.errorValue("json: unsupported type: " + i.T.String())
	}
	return m.jsonBytes(gt), Iface{}
}

func (m *Machine) jsonUnmarshal(data Value, target Value) Value {
	ti, _ := target.(Iface)
	pt, isPtr := ti.T.(*types.Pointer)
	if ti.T == nil || !isPtr || ti.V.(Ptr) == nil {
		return m.errorValue("json: Unmarshal(non-pointer or nil)")
	}
	gt, perr := m.parseJSONBytes(data)
	if perr != "" {
		return m.errorValue(perr)
	}
	d := &decState{m: m}
	d.decode(gt, pt.Elem(), ti.V.(Ptr))
	if d.firstErr != "" {
		return m.errorValue(d.firstErr)
	}
	return Iface{}
}

func init() {
	R("encoding/json.Marshal", func(m *Machine, a []Value) Value {
		b, err := m.jsonMarshal(a[0])
		return Tuple{b, err}
	})
	R("encoding/json.Unmarshal", func(m *Machine, a []Value) Value { return m.jsonUnmarshal(a[0], a[1]) })
	R("encoding/json.Valid", func(m *Machine, a []Value) Value {
		_, e := m.parseJSONBytes(a[0])
		return e == ""
	})
	// json.NewEncoder(w).Encode(v): marshal + "\n", then w.Write(bytes)
	R("encoding/json.NewEncoder", func(m *Machine, a []Value) Value {
		t := m.prog.ImportedPackage("encoding/json").Type("Encoder").Type()
		c := newCell(zero(t))
		m.side[c] = a[0]
		return c
	})
	intrinsics["(*encoding/json.Encoder).Encode"] = func(m *Machine, g *G, fr *Frame, in ssa.Instruction, args []Value) {
		w := m.side[args[0].(Ptr)].(Iface)
		b, err := m.jsonMarshal(args[1])
		if e := err.(Iface); e.T != nil {
			m.setResult(fr, in, err)
			return
		}
		bs := b.(*SliceV)
		out := &SliceV{A: append(append([]Value{}, bs.A...), int64('\n'))}
		m.callWrite(g, fr, in, w, out, func(res Value) Value { return res.(Tuple)[1] })
	}
	// json.NewDecoder(r).Decode(&v): the reader is drained on the first call; every Decode consumes the
	// first JSON value of what is left (the real decoder finds its end) and ignores the rest
	R("encoding/json.NewDecoder", func(m *Machine, a []Value) Value {
		t := m.prog.ImportedPackage("encoding/json").Type("Decoder").Type()
		c := newCell(zero(t))
		m.side[c] = a[0]
		return c
	})
	R("(*encoding/json.Decoder).Decode", func(m *Machine, a []Value) Value {
		c := a[0].(Ptr)
		var buf *SliceV
		switch s := m.side[c].(type) {
		case Iface:
			data, err := m.readerDrain(s)
			if e := err.(Iface); e.T != nil {
				return err
			}
			buf = data
		case *SliceV:
			buf = s
		}
		var b []byte
		var owner []int // element index of every byte of b
		var leaves []*JSONLeaf
		for i, e := range buf.A {
			var chunk []byte
			switch e := e.(type) {
			case int64:
				chunk = []byte{byte(e)}
			case *JSONLeaf:
				ph := fmt.Sprintf("@@LEAF%d@@", len(leaves))
				leaves = append(leaves, e)
				if e.Kind == "string" {
					chunk = []byte(ph)
				} else {
					chunk = []byte(`"` + ph + `"`)
				}
			case *StrBlob:
				chunk = []byte(m.concStr(e.S, "json bytes"))
			default:
				m.fail("unsupported", fmt.Sprintf("byte slice element %T in JSON input", e))
			}
			for range chunk {
				owner = append(owner, i)
			}
			b = append(b, chunk...)
		}
		dec := json.NewDecoder(bytes.NewReader(b))
		var x interface{}
		if err := dec.Decode(&x); err != nil {
			m.side[c] = &SliceV{A: []Value{}}
			if err == io.EOF {
				return m.errorValue("EOF")
			}
			return m.errorValue(err.Error())
		}
		rest := &SliceV{A: []Value{}}
		if off := int(dec.InputOffset()); off < len(owner) {
			rest.A = append(rest.A, buf.A[owner[off]:]...)
		}
		m.side[c] = rest
		gt := gtFromNative(x)
		if len(leaves) > 0 {
			gt = substLeaves(x, leaves)
		}
		ti, _ := a[1].(Iface)
		pt, isPtr := ti.T.(*types.Pointer)
		if ti.T == nil || !isPtr || ti.V.(Ptr) == nil {
			return m.errorValue("json: Unmarshal(non-pointer or nil)")
		}
		d := &decState{m: m}
		d.decode(gt, pt.Elem(), ti.V.(Ptr))
		if d.firstErr != "" {
			return m.errorValue(d.firstErr)
		}
		return Iface{}
	})
	R("(*encoding/json.Encoder).SetEscapeHTML", func(m *Machine, a []Value) Value { return nil })
	R("(*encoding/json.Encoder).SetIndent", func(m *Machine, a []Value) Value { return nil })
}

// callWrite invokes w.Write(data) on an io.Writer interface value (interpreted method or modelled writer)
func (m *Machine) callWrite(g *G, fr *Frame, in ssa.Instruction, w Iface, data *SliceV, conv func(Value) Value) {
	if w.T == nil {
		m.throw("invalid memory address or nil pointer dereference (Write on nil io.Writer)")
	}
	ms := m.prog.MethodSets.MethodSet(w.T)
	var sel *types.Selection
	for i := 0; i < ms.Len(); i++ {
		if ms.At(i).Obj().Name() == "Write" {
			sel = ms.At(i)
		}
	}
	if sel == nil {
		m.fail("unsupported", "Write method not found on "+w.T.String())
	}
	fn := m.prog.MethodValue(sel)
	if ifn := m.lookupIntrinsic(fn); ifn != nil {
		// modelled writer (bytes.Buffer, multipart part): run synchronously via a scratch frame slot
		tmp := &Frame{fn: fr.fn, locals: map[ssa.Value]Value{}, block: fr.block, pc: fr.pc}
		ifn(m, g, tmp, nil, []Value{w.V, data})
		// synchronous writers always succeed
		m.setResult(fr, in, conv(Tuple{int64(len(data.A)), Iface{}}))
		return
	}
	if in == nil {
		m.fail("unsupported", "interpreted Write in deferred position")
	}
	m.pushFrame(g, fn, nil, []Value{w.V, data}, in)
	m.top(g).onReturn = conv
}
