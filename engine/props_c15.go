package main

func init() {
	reg(&Property{
		ID:    "C15",
		Title: "Introspecting a service reproduces its schema",
		Kernels: []Kernel{
			{Name: "introspect", Pkg: "introspection", Files: []string{"introspection/c15.go"}, Entry: "VerifIntrospect", Mode: "seq", Native: true,
				Quick: map[string]int{"shapes": 6}, Thorough: map[string]int{"shapes": 10},
				Reach:     []string{"malformed answer rejected", "schema reconstructed"},
				Functions: []string{"introspection.introspectRemoteSchema", "introspection.parseQueryerResponse", "introspection.parseType", "introspection.parseTypeRef", "introspection.parseArgList", "introspection.parseInputField", "introspection.formatSchema (gqlparser/formatter interpreted)"}},
		},
		Assume: []string{
			"the introspection answer is rendered from a descriptor in the shape the GraphQL specification prescribes (defaultValue is a String holding the literal; args on fields and directives; isDeprecated/deprecationReason); type-reference trees of depth <= 5 drawn from 10 wrapper shapes",
			"typed decoding of the answer = abstract JSON codec driven by the struct tags of remote.go; the final gqlparser.LoadSchema runs natively",
		},
		Outside: []string{"schemas outside the descriptor", "wrapper depth above 5 (the introspection query itself stops at 7)"},
	})
}
