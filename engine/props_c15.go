package main

func init() {
	reg(&Property{
		ID:    "C15",
		Title: "Introspecting a service reproduces its schema",
		Kernels: []Kernel{
			{Name: "answer-of-any-size", Pkg: "queryer", Files: []string{"queryer/c09.go"}, Entry: "VerifAnswerOfAnySize", Mode: "seq",
				Reach:     []string{"answer of symbolic size accepted"},
				Functions: []string{"queryer.(*MultiOpQueryer).Query", "queryer.(*MultiOpQueryer).queryBatch", "queryer.(*MultiOpQueryer).fetch", "queryer.(*MultiOpQueryer).sendQueryRequest", "queryer.(*MultiOpQueryer).sendRequest"}},
			{Name: "introspect", Pkg: "introspection", Files: []string{"introspection/c15.go"}, Entry: "VerifIntrospect", Mode: "seq", Native: true,
				Quick: map[string]int{"shapes": 6}, Thorough: map[string]int{"shapes": 10},
				Reach:     []string{"malformed answer rejected", "schema reconstructed"},
				Functions: []string{"introspection.introspectRemoteSchema", "introspection.parseQueryerResponse", "introspection.parseType", "introspection.parseTypeRef", "introspection.parseArgList", "introspection.parseInputField", "introspection.formatSchema (gqlparser/formatter interpreted)"}},
		},
		Assume: []string{
			"answer-of-any-size: the HTTP client reads a healthy answer whose size is symbolic: pad in [0, 2^30] blanks precede the JSON text (never materialised; io.LimitReader is modelled over that count, other readers drop the blanks as a JSON decoder does)",
			"the introspection answer is rendered from a descriptor in the shape the GraphQL specification prescribes (defaultValue is a String holding the literal; args on fields and directives; isDeprecated/deprecationReason); type-reference trees of depth <= 5 drawn from 10 wrapper shapes",
			"typed decoding of the answer = abstract JSON codec driven by the struct tags of remote.go; the final gqlparser.LoadSchema runs natively",
		},
		Outside: []string{"schemas outside the descriptor", "wrapper depth above 5 (the introspection query itself stops at 7)"},
	})
}
