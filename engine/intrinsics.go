package main

import (
	"crypto/sha1"
	"crypto/sha256"
	"encoding/json"
	"fmt"
	"go/types"
	"sort"
	"strconv"
	"strings"
	"sync"

	"golang.org/x/tools/go/ssa"
)

type intrinsicFn func(m *Machine, g *G, fr *Frame, in ssa.Instruction, args []Value)

var intrinsics = map[string]intrinsicFn{}

var intrNameCache sync.Map

func intrinsicName(f *ssa.Function) string {
	if n, ok := intrNameCache.Load(f); ok {
		return n.(string)
	}
	n := f.String()
	if len(f.Blocks) == 0 && strings.HasPrefix(f.Name(), "verif") && f.Signature.Recv() == nil {
		n = f.Name()
	}
	intrNameCache.Store(f, n)
	return n
}

func (m *Machine) lookupIntrinsic(f *ssa.Function) intrinsicFn {
	name := intrinsicName(f)
	fn := intrinsics[name]
	if fn != nil && !strings.HasPrefix(name, "verif") {
		m.ex.note("intr", name)
	}
	return fn
}

// R registers a simple synchronous intrinsic
func R(name string, f func(m *Machine, args []Value) Value) {
	intrinsics[name] = func(m *Machine, g *G, fr *Frame, in ssa.Instruction, args []Value) {
		m.setResult(fr, in, f(m, args))
	}
}

func (m *Machine) param(name string, def int64) int64 {
	if v, ok := m.ex.ex.cfg.Params[name]; ok {
		return int64(v)
	}
	return def
}

func strArg(m *Machine, v Value, what string) string {
	s, ok := v.(string)
	if !ok {
		return m.concStr(v, what)
	}
	return s
}

func init() {
	// ---- harness primitives ----
	R("verifBool", func(m *Machine, a []Value) Value {
		s := m.ex.fresh(m, "Bool", a[0].(string))
		m.noteSymbolic(a[0].(string))
		m.primLog = append(m.primLog, primRec{P: "bool", N: a[0].(string), e: s.E})
		return s
	})
	R("verifInt", func(m *Machine, a []Value) Value {
		lo, hi := a[1].(int64), a[2].(int64)
		if lo == hi {
			return lo
		}
		s := m.ex.fresh(m, "Int", a[0].(string))
		s.Lo, s.Hi = lo, hi
		m.ex.addPC(m, fmt.Sprintf("(and (<= %s %s) (<= %s %s))", smtInt(lo), s.E, s.E, smtInt(hi)))
		m.noteSymbolic(a[0].(string))
		m.primLog = append(m.primLog, primRec{P: "int", N: a[0].(string), e: s.E})
		return s
	})
	R("verifChoice", func(m *Machine, a []Value) Value {
		n := a[1].(int64)
		if n <= 0 {
			m.fail("infeasible", "verifChoice with empty range")
		}
		m.ex.note("split", a[0].(string))
		c := int64(m.ex.choose(m, int(n), "verifChoice "+a[0].(string)))
		m.primLog = append(m.primLog, primRec{P: "choice", N: a[0].(string), V: strconv.FormatInt(c, 10)})
		return c
	})
	R("verifNumStr", func(m *Machine, a []Value) Value {
		lo, hi := a[1].(int64), a[2].(int64)
		s := m.ex.fresh(m, "Int", a[0].(string))
		s.Lo, s.Hi = lo, hi
		m.ex.addPC(m, fmt.Sprintf("(and (<= %s %s) (<= %s %s))", smtInt(lo), s.E, s.E, smtInt(hi)))
		m.noteSymbolic(a[0].(string))
		m.primLog = append(m.primLog, primRec{P: "numstr", N: a[0].(string), e: s.E})
		return &StrNum{s}
	})
	R("verifItoa", func(m *Machine, a []Value) Value {
		if c, ok := a[0].(int64); ok {
			return strconv.FormatInt(c, 10)
		}
		return &StrNum{a[0]}
	})
	R("verifAtom", func(m *Machine, a []Value) Value {
		name := a[0].(string)
		nfresh := a[1].(int64)
		dom := a[2].(*SliceV)
		s := m.ex.fresh(m, "Int", name)
		var alts []string
		if dom != nil {
			for _, d := range dom.A {
				alts = append(alts, fmt.Sprintf("(= %s %d)", s.E, m.strCode(d.(string))))
			}
		}
		if nfresh > 0 {
			alts = append(alts, fmt.Sprintf("(and (<= %d %s) (< %s %d))", atomFreshBase, s.E, s.E, atomFreshBase+nfresh))
		}
		if len(alts) == 0 {
			m.fail("infeasible", "verifAtom with empty domain")
		}
		m.ex.addPC(m, "(or "+strings.Join(alts, " ")+" false)")
		s.Lo, s.Hi = 0, atomFreshBase+nfresh
		m.noteSymbolic(name)
		m.ex.ex.noteAssumption("string atoms contain no separator characters and are not decimal numerals")
		m.primLog = append(m.primLog, primRec{P: "atom", N: name, e: s.E})
		return &StrAtom{Name: name, Code: s}
	})
	R("verifAssume", func(m *Machine, a []Value) Value { m.ex.assume(m, a[0]); return nil })
	R("verifAssert", func(m *Machine, a []Value) Value { m.ex.assert(m, a[0], a[1].(string)); return nil })
	R("verifReach", func(m *Machine, a []Value) Value { m.reached[a[0].(string)] = true; return nil })
	// verifOutcome(key, outcome): all completed paths with the same key (the harness' inputs) must report the
	// same outcome, whatever the interleaving / map orders: compared across paths by the explorer
	R("verifOutcome", func(m *Machine, a []Value) Value {
		m.outcomes = append(m.outcomes, [2]string{m.concStr(a[0], "outcome key"), m.concStr(a[1], "outcome")})
		return nil
	})
	R("verifKnown", func(m *Machine, a []Value) Value {
		if b, ok := a[1].(bool); ok && !b {
			return nil
		}
		m.known = append(m.known, knownTag{a[0].(string), a[1]})
		return nil
	})
	R("verifParam", func(m *Machine, a []Value) Value { return m.param(a[0].(string), a[1].(int64)) })
	R("verifConcInt", func(m *Machine, a []Value) Value { return m.concInt(a[0], "verifConcInt") })
	R("verifConcStr", func(m *Machine, a []Value) Value { return m.concStr(a[0], "verifConcStr") })
	R("verifIsSymbolic", func(m *Machine, a []Value) Value { return isSymbolic(a[0]) })
	R("verifLog", func(m *Machine, a []Value) Value {
		m.events = append(m.events, m.concStr(a[0], "verifLog"))
		return nil
	})
	R("verifNow", func(m *Machine, a []Value) Value { return m.now() })
	R("verifGoroutines", func(m *Machine, a []Value) Value {
		n := int64(0)
		for _, g := range m.gs {
			if g.state != Done {
				n++
			}
		}
		return n
	})

	// ---- strings / strconv ----
	R("strings.Join", func(m *Machine, a []Value) Value {
		s := a[0].(*SliceV)
		sep := a[1].(string)
		var ps []Value
		for i, e := range s.A {
			if i > 0 {
				ps = append(ps, sep)
			}
			ps = append(ps, pieces(e)...)
		}
		return normCat(ps)
	})
	R("strings.Split", func(m *Machine, a []Value) Value {
		if s, ok := a[0].(string); ok {
			return strsVal(strings.Split(s, a[1].(string)))
		}
		return strSlice(m.splitPieces(a[0], a[1].(string), -1))
	})
	R("strings.SplitN", func(m *Machine, a []Value) Value {
		n := int(m.concInt(a[2], "SplitN n"))
		if s, ok := a[0].(string); ok {
			return strsVal(strings.SplitN(s, a[1].(string), n))
		}
		if n == 0 {
			return &SliceV{Nil: true}
		}
		return strSlice(m.splitPieces(a[0], a[1].(string), n))
	})
	R("strings.Contains", func(m *Machine, a []Value) Value {
		if s, ok := a[0].(string); ok {
			return strings.Contains(s, a[1].(string))
		}
		return m.containsPieces(a[0], a[1].(string))
	})
	R("strings.Repeat", func(m *Machine, a []Value) Value {
		return strings.Repeat(a[0].(string), int(m.concInt(a[1], "Repeat")))
	})
	R("strings.TrimSpace", func(m *Machine, a []Value) Value { return strings.TrimSpace(strArg(m, a[0], "TrimSpace")) })
	R("strings.HasPrefix", func(m *Machine, a []Value) Value {
		if s, ok := a[0].(string); ok {
			return strings.HasPrefix(s, a[1].(string))
		}
		ps := pieces(a[0])
		if s, ok := ps[0].(string); ok && len(s) >= len(a[1].(string)) {
			return strings.HasPrefix(s, a[1].(string))
		}
		return strings.HasPrefix(m.concStr(a[0], "HasPrefix"), a[1].(string))
	})
	R("strings.HasSuffix", func(m *Machine, a []Value) Value {
		return strings.HasSuffix(strArg(m, a[0], "HasSuffix"), a[1].(string))
	})
	R("strings.Index", func(m *Machine, a []Value) Value {
		return int64(strings.Index(strArg(m, a[0], "Index"), a[1].(string)))
	})
	R("strings.IndexByte", func(m *Machine, a []Value) Value {
		return int64(strings.IndexByte(strArg(m, a[0], "IndexByte"), byte(a[1].(int64))))
	})
	R("strings.ToLower", func(m *Machine, a []Value) Value { return strings.ToLower(strArg(m, a[0], "ToLower")) })
	R("strings.ToUpper", func(m *Machine, a []Value) Value { return strings.ToUpper(strArg(m, a[0], "ToUpper")) })
	R("strings.EqualFold", func(m *Machine, a []Value) Value {
		return strings.EqualFold(strArg(m, a[0], "EqualFold"), strArg(m, a[1], "EqualFold"))
	})
	R("strings.Compare", func(m *Machine, a []Value) Value {
		return int64(strings.Compare(strArg(m, a[0], "Compare"), strArg(m, a[1], "Compare")))
	})
	R("strings.ReplaceAll", func(m *Machine, a []Value) Value {
		return strings.ReplaceAll(strArg(m, a[0], "ReplaceAll"), a[1].(string), a[2].(string))
	})
	R("strings.Trim", func(m *Machine, a []Value) Value { return strings.Trim(strArg(m, a[0], "Trim"), a[1].(string)) })
	R("strings.TrimPrefix", func(m *Machine, a []Value) Value {
		return strings.TrimPrefix(strArg(m, a[0], "TrimPrefix"), a[1].(string))
	})
	R("strings.TrimSuffix", func(m *Machine, a []Value) Value {
		return strings.TrimSuffix(strArg(m, a[0], "TrimSuffix"), a[1].(string))
	})
	R("strings.Fields", func(m *Machine, a []Value) Value { return strsVal(strings.Fields(strArg(m, a[0], "Fields"))) })
	R("strings.Count", func(m *Machine, a []Value) Value {
		return int64(strings.Count(strArg(m, a[0], "Count"), a[1].(string)))
	})
	R("strings.LastIndex", func(m *Machine, a []Value) Value {
		return int64(strings.LastIndex(strArg(m, a[0], "LastIndex"), a[1].(string)))
	})
	R("strings.Title", func(m *Machine, a []Value) Value { return strings.Title(strArg(m, a[0], "Title")) })
	R("strconv.Quote", func(m *Machine, a []Value) Value { return strconv.Quote(strArg(m, a[0], "Quote")) })
	R("strconv.Itoa", func(m *Machine, a []Value) Value {
		if c, ok := a[0].(int64); ok {
			return strconv.Itoa(int(c))
		}
		return &StrNum{a[0]}
	})
	R("strconv.FormatInt", func(m *Machine, a []Value) Value {
		return strconv.FormatInt(m.concInt(a[0], "FormatInt"), int(a[1].(int64)))
	})
	R("strconv.FormatBool", func(m *Machine, a []Value) Value { return strconv.FormatBool(a[0].(bool)) })
	R("strconv.FormatFloat", func(m *Machine, a []Value) Value {
		return strconv.FormatFloat(a[0].(float64), byte(a[1].(int64)), int(a[2].(int64)), int(a[3].(int64)))
	})
	R("strconv.Atoi", func(m *Machine, a []Value) Value {
		switch s := a[0].(type) {
		case string:
			n, err := strconv.Atoi(s)
			if err != nil {
				return Tuple{int64(0), m.errorValue(err.Error())}
			}
			return Tuple{int64(n), Iface{}}
		case *StrNum:
			return Tuple{s.N, Iface{}}
		case *StrAtom:
			return Tuple{int64(0), m.errorValue("strconv.Atoi: parsing atom: invalid syntax")}
		}
		s := m.concStr(a[0], "Atoi")
		n, err := strconv.Atoi(s)
		if err != nil {
			return Tuple{int64(0), m.errorValue(err.Error())}
		}
		return Tuple{int64(n), Iface{}}
	})
	R("strconv.ParseInt", func(m *Machine, a []Value) Value {
		// the decimal numeral of a symbolic integer (it has no leading zeros, so base 0 reads it as base 10):
		// the value is the integer itself, within the range of bitSize (decided by the solver)
		if sn, ok := a[0].(*StrNum); ok && (a[1].(int64) == 10 || a[1].(int64) == 0) {
			bits := a[2].(int64)
			if bits <= 0 || bits > 64 {
				bits = 64
			}
			if bits < 64 {
				lo, hi := -(int64(1) << (bits - 1)), (int64(1)<<(bits-1))-1
				if m.truth(mkOr(mkCmp("<", sn.N, lo), mkCmp(">", sn.N, hi))) {
					return Tuple{int64(0), m.errorValue("strconv.ParseInt: parsing numeral: value out of range")}
				}
			}
			return Tuple{sn.N, Iface{}}
		}
		n, err := strconv.ParseInt(strArg(m, a[0], "ParseInt"), int(a[1].(int64)), int(a[2].(int64)))
		if err != nil {
			return Tuple{int64(0), m.errorValue(err.Error())}
		}
		return Tuple{n, Iface{}}
	})
	R("strconv.ParseBool", func(m *Machine, a []Value) Value {
		b, err := strconv.ParseBool(strArg(m, a[0], "ParseBool"))
		if err != nil {
			return Tuple{false, m.errorValue(err.Error())}
		}
		return Tuple{b, Iface{}}
	})
	R("strconv.ParseFloat", func(m *Machine, a []Value) Value {
		f, err := strconv.ParseFloat(strArg(m, a[0], "ParseFloat"), int(a[1].(int64)))
		if err != nil {
			return Tuple{float64(0), m.errorValue(err.Error())}
		}
		return Tuple{f, Iface{}}
	})

	// ---- fmt / errors ----
	R("fmt.Sprintf", func(m *Machine, a []Value) Value { return m.sprintf(a[0].(string), a[1].(*SliceV).A) })
	R("fmt.Errorf", func(m *Machine, a []Value) Value {
		format := a[0].(string)
		args := a[1].(*SliceV).A
		msg := m.sprintf(strings.ReplaceAll(format, "%w", "%v"), args)
		// one %w: the result wraps that operand (errors.Is / errors.Unwrap see through it)
		if strings.Count(format, "%w") == 1 {
			ai := 0
			for i := 0; i+1 < len(format); i++ {
				if format[i] != '%' {
					continue
				}
				if format[i+1] == '%' {
					i++
					continue
				}
				if format[i+1] == 'w' {
					break
				}
				ai++
			}
			if ai < len(args) {
				if w, ok := args[ai].(Iface); ok && w.T != nil {
					if fp := m.prog.ImportedPackage("fmt"); fp != nil && fp.Type("wrapError") != nil {
						return Iface{T: ptrTo(fp.Type("wrapError").Type()), V: newCell(Struct{msg, w})}
					}
				}
			}
		}
		return m.errorValue2(msg)
	})
	unwrap := func(m *Machine, e Iface) (Iface, bool) {
		if e.T != nil && e.T.String() == "*fmt.wrapError" {
			if p, ok := e.V.(Ptr); ok && p != nil {
				if in, ok := (*p).(Struct)[1].(Iface); ok {
					return in, true
				}
			}
		}
		return Iface{}, false
	}
	R("(*fmt.wrapError).Error", func(m *Machine, a []Value) Value { return (*(a[0].(Ptr))).(Struct)[0] })
	R("(*fmt.wrapError).Unwrap", func(m *Machine, a []Value) Value { return (*(a[0].(Ptr))).(Struct)[1] })
	R("errors.Unwrap", func(m *Machine, a []Value) Value {
		e, _ := a[0].(Iface)
		in, _ := unwrap(m, e)
		return in
	})
	// errors.Is over the error values of this model: identity of comparable (pointer) errors along the %w chain
	R("errors.Is", func(m *Machine, a []Value) Value {
		e, _ := a[0].(Iface)
		t, _ := a[1].(Iface)
		for depth := 0; depth < 16; depth++ {
			if e.T == nil {
				return t.T == nil
			}
			if t.T != nil && types.Identical(e.T, t.T) {
				ep, ok1 := e.V.(Ptr)
				tp, ok2 := t.V.(Ptr)
				if ok1 && ok2 && ep == tp {
					return true
				}
			}
			in, ok := unwrap(m, e)
			if !ok {
				return false
			}
			e = in
		}
		return false
	})
	R("fmt.Sprint", func(m *Machine, a []Value) Value {
		var ps []Value
		for _, x := range a[0].(*SliceV).A {
			ps = append(ps, pieces(m.fmtArg('v', "%v", x))...)
		}
		return normCat(ps)
	})
	R("fmt.Println", func(m *Machine, a []Value) Value { return Tuple{int64(0), Iface{}} })
	R("fmt.Printf", func(m *Machine, a []Value) Value { return Tuple{int64(0), Iface{}} })
	R("fmt.Print", func(m *Machine, a []Value) Value { return Tuple{int64(0), Iface{}} })
	R("log.Println", func(m *Machine, a []Value) Value { return nil })
	R("log.Printf", func(m *Machine, a []Value) Value { return nil })
	R("log.Print", func(m *Machine, a []Value) Value { return nil })

	// ---- sort ----
	R("sort.Strings", func(m *Machine, a []Value) Value {
		s := a[0].(*SliceV)
		ss := m.strs(s)
		sort.Strings(ss)
		for i := range ss {
			m.touch(&s.A[i])
			s.A[i] = ss[i]
		}
		return nil
	})
	R("sort.Ints", func(m *Machine, a []Value) Value {
		s := a[0].(*SliceV)
		is := make([]int64, len(s.A))
		for i, x := range s.A {
			is[i] = m.concInt(x, "sort.Ints")
		}
		sort.Slice(is, func(i, j int) bool { return is[i] < is[j] })
		for i := range is {
			s.A[i] = is[i]
		}
		return nil
	})

	// ---- hashing ----
	R("crypto/sha256.Sum256", func(m *Machine, a []Value) Value {
		h := sha256.Sum256(m.bytesOf(a[0]))
		arr := make(Array, 32)
		for i := range arr {
			arr[i] = int64(h[i])
		}
		return arr
	})
	R("crypto/sha1.Sum", func(m *Machine, a []Value) Value {
		h := sha1.Sum(m.bytesOf(a[0]))
		arr := make(Array, 20)
		for i := range arr {
			arr[i] = int64(h[i])
		}
		return arr
	})
	R("encoding/hex.EncodeToString", func(m *Machine, a []Value) Value {
		return fmt.Sprintf("%x", m.bytesOf(a[0]))
	})

	// ---- bytes.Buffer (concrete) ----
	R("(*bytes.Buffer).Write", func(m *Machine, a []Value) Value {
		b := m.buf(a[0].(Ptr))
		w := a[1].(*SliceV)
		*b = append(*b, w.A...)
		return Tuple{int64(len(w.A)), Iface{}}
	})
	R("(*bytes.Buffer).WriteString", func(m *Machine, a []Value) Value {
		b := m.buf(a[0].(Ptr))
		s, ok := a[1].(string)
		if !ok {
			*b = append(*b, &StrBlob{a[1]})
			return Tuple{int64(1), Iface{}}
		}
		*b = append(*b, bytesVal([]byte(s)).(*SliceV).A...)
		return Tuple{int64(len(s)), Iface{}}
	})
	R("(*bytes.Buffer).WriteByte", func(m *Machine, a []Value) Value {
		b := m.buf(a[0].(Ptr))
		*b = append(*b, a[1])
		return Iface{}
	})
	R("(*bytes.Buffer).WriteRune", func(m *Machine, a []Value) Value {
		b := m.buf(a[0].(Ptr))
		s := string(rune(a[1].(int64)))
		*b = append(*b, bytesVal([]byte(s)).(*SliceV).A...)
		return Tuple{int64(len(s)), Iface{}}
	})
	R("(*bytes.Buffer).String", func(m *Machine, a []Value) Value { return m.bufString(*m.buf(a[0].(Ptr))) })
	R("(*bytes.Buffer).Bytes", func(m *Machine, a []Value) Value {
		b := *m.buf(a[0].(Ptr))
		return &SliceV{A: append([]Value{}, b...)}
	})
	R("(*bytes.Buffer).Len", func(m *Machine, a []Value) Value { return int64(len(*m.buf(a[0].(Ptr)))) })
	R("(*bytes.Buffer).Reset", func(m *Machine, a []Value) Value { *m.buf(a[0].(Ptr)) = nil; return nil })
	R("(*strings.Builder).WriteString", func(m *Machine, a []Value) Value {
		b := m.buf(a[0].(Ptr))
		s, ok := a[1].(string)
		if !ok {
			*b = append(*b, &StrBlob{a[1]})
			return Tuple{int64(1), Iface{}}
		}
		*b = append(*b, bytesVal([]byte(s)).(*SliceV).A...)
		return Tuple{int64(len(s)), Iface{}}
	})
	R("(*strings.Builder).WriteByte", func(m *Machine, a []Value) Value {
		b := m.buf(a[0].(Ptr))
		*b = append(*b, a[1])
		return Iface{}
	})
	R("(*strings.Builder).WriteRune", func(m *Machine, a []Value) Value {
		b := m.buf(a[0].(Ptr))
		s := string(rune(a[1].(int64)))
		*b = append(*b, bytesVal([]byte(s)).(*SliceV).A...)
		return Tuple{int64(len(s)), Iface{}}
	})
	R("(*strings.Builder).String", func(m *Machine, a []Value) Value { return m.bufString(*m.buf(a[0].(Ptr))) })
	R("(*strings.Builder).Len", func(m *Machine, a []Value) Value { return int64(len(*m.buf(a[0].(Ptr)))) })
	R("(*strings.Builder).Reset", func(m *Machine, a []Value) Value { *m.buf(a[0].(Ptr)) = nil; return nil })
	R("(*strings.Builder).Grow", func(m *Machine, a []Value) Value { return nil })
	R("bytes.NewBuffer", func(m *Machine, a []Value) Value {
		t := m.prog.ImportedPackage("bytes").Type("Buffer").Type()
		c := newCell(zero(t))
		b := m.buf(c)
		if s, ok := a[0].(*SliceV); ok && s != nil {
			*b = append(*b, s.A...)
		}
		return c
	})
	R("bytes.NewBufferString", func(m *Machine, a []Value) Value {
		t := m.prog.ImportedPackage("bytes").Type("Buffer").Type()
		c := newCell(zero(t))
		b := m.buf(c)
		*b = append(*b, bytesVal([]byte(a[0].(string))).(*SliceV).A...)
		return c
	})
	R("bytes.NewReader", func(m *Machine, a []Value) Value {
		t := m.prog.ImportedPackage("bytes").Type("Buffer").Type()
		c := newCell(zero(t))
		b := m.buf(c)
		if s, ok := a[0].(*SliceV); ok && s != nil {
			*b = append(*b, s.A...)
		}
		return c
	})

	// ---- context / time ----
	R("context.Background", func(m *Machine, a []Value) Value { return m.opaqueIface("context", "emptyCtx", "background") })
	R("context.TODO", func(m *Machine, a []Value) Value { return m.opaqueIface("context", "emptyCtx", "todo") })
}

func (m *Machine) noteSymbolic(name string) { m.ex.note("sym", name) }

func (e *Explorer) noteAssumption(s string) {
	e.mu.Lock()
	e.assumptions[s] = true
	e.mu.Unlock()
}

// opaqueIface builds an interface value whose dynamic type is *pkg.typ holding an opaque payload
func (m *Machine) opaqueIface(pkg, typ, payload string) Value {
	p := m.prog.ImportedPackage(pkg)
	if p == nil || p.Type(typ) == nil {
		m.fail("unsupported", "type "+pkg+"."+typ+" not loaded")
	}
	return Iface{T: ptrTo(p.Type(typ).Type()), V: newCell(&Opaque{Kind: pkg + "." + typ, X: payload})}
}

func (m *Machine) buf(p Ptr) *[]Value {
	b, ok := m.bufs[p]
	if !ok {
		b = new([]Value)
		m.bufs[p] = b
	}
	return b
}

// bufString renders buffer contents as a string value (concrete bytes, or a single symbolic blob)
func (m *Machine) bufString(b []Value) Value {
	var ps []Value
	var cur []byte
	for _, x := range b {
		switch x := x.(type) {
		case int64:
			cur = append(cur, byte(x))
		case *StrBlob:
			if len(cur) > 0 {
				ps = append(ps, string(cur))
				cur = nil
			}
			ps = append(ps, pieces(x.S)...)
		case *JSONBlob:
			if len(cur) > 0 {
				ps = append(ps, string(cur))
				cur = nil
			}
			ps = append(ps, pieces(m.jsonText(x))...)
		default:
			m.fail("unsupported", fmt.Sprintf("buffer element %T", x))
		}
	}
	if len(cur) > 0 {
		ps = append(ps, string(cur))
	}
	return normCat(ps)
}

func (m *Machine) bytesOf(v Value) []byte {
	s := v.(*SliceV)
	if s == nil {
		return nil
	}
	b := make([]byte, 0, len(s.A))
	for _, x := range s.A {
		switch x := x.(type) {
		case int64:
			b = append(b, byte(x))
		case *StrBlob:
			b = append(b, m.concStr(x.S, "bytesOf")...)
		case *JSONBlob:
			b = append(b, m.concStr(m.jsonText(x), "bytesOf")...)
		case *JSONLeaf:
			switch x.Kind {
			case "string":
				q, _ := json.Marshal(m.concStr(x.V, "bytesOf"))
				b = append(b, q[1:len(q)-1]...)
			case "number":
				b = append(b, strconv.FormatInt(m.concInt(x.V, "bytesOf"), 10)...)
			case "bool":
				b = append(b, strconv.FormatBool(m.truth(x.V))...)
			}
		default:
			m.fail("unsupported", fmt.Sprintf("byte slice element %T", x))
		}
	}
	return b
}

func bytesVal(b []byte) Value {
	a := make([]Value, len(b))
	for i, x := range b {
		a[i] = int64(x)
	}
	return &SliceV{A: a, Nil: b == nil}
}

func (m *Machine) strs(v Value) []string {
	s := v.(*SliceV)
	out := make([]string, len(s.A))
	for i, x := range s.A {
		out[i] = m.concStr(x, "string slice element")
	}
	return out
}

func strsVal(ss []string) Value {
	if ss == nil {
		return &SliceV{Nil: true}
	}
	a := make([]Value, len(ss))
	for i, x := range ss {
		a[i] = x
	}
	return &SliceV{A: a}
}

// errorValue2 builds an error whose message may be a symbolic string
func (m *Machine) errorValue2(msg Value) Value {
	ep := m.prog.ImportedPackage("errors")
	t := ptrTo(ep.Type("errorString").Type())
	return Iface{T: t, V: newCell(Struct{msg})}
}

// ---- fmt ----

func (m *Machine) sprintf(format string, args []Value) Value {
	var ps []Value
	ai := 0
	i := 0
	for i < len(format) {
		c := format[i]
		if c != '%' {
			j := strings.IndexByte(format[i:], '%')
			if j < 0 {
				j = len(format) - i
			}
			ps = append(ps, format[i:i+j])
			i += j
			continue
		}
		// parse verb spec
		j := i + 1
		for j < len(format) && strings.ContainsRune("+-# 0123456789.", rune(format[j])) {
			j++
		}
		if j >= len(format) {
			ps = append(ps, "%!(NOVERB)")
			break
		}
		verb := format[j]
		spec := format[i : j+1]
		i = j + 1
		if verb == '%' {
			ps = append(ps, "%")
			continue
		}
		if ai >= len(args) {
			ps = append(ps, "%!"+string(verb)+"(MISSING)")
			continue
		}
		ps = append(ps, pieces(m.fmtArg(verb, spec, args[ai]))...)
		ai++
	}
	if ai < len(args) {
		ps = append(ps, "%!(EXTRA)")
	}
	return normCat(ps)
}

func (m *Machine) fmtArg(verb byte, spec string, a Value) Value {
	if i, ok := a.(Iface); ok {
		if i.T == nil {
			return fmt.Sprintf(spec, nil)
		}
		// symbolic payloads
		switch x := i.V.(type) {
		case *Sym:
			if x.Sort == "Int" && (verb == 'd' || verb == 'v') && len(spec) == 2 {
				return &StrNum{x}
			}
			if x.Sort == "Bool" && (verb == 't' || verb == 'v') && len(spec) == 2 {
				if m.truth(x) {
					return "true"
				}
				return "false"
			}
			m.fail("unsupported", "formatting symbolic value with "+spec)
		case *StrNum, *StrAtom, *StrCat:
			if (verb == 's' || verb == 'v') && len(spec) == 2 {
				return x
			}
			return fmt.Sprintf(spec, m.concStr(x, "fmt "+spec))
		}
		return fmt.Sprintf(spec, m.toNative(i))
	}
	return fmt.Sprintf(spec, m.toNative(a))
}

type nativeErr struct{ s string }

func (e nativeErr) Error() string { return e.s }

// toNative converts an interpreter value to a native Go value good enough for fmt verbs
func (m *Machine) toNative(v Value) interface{} {
	switch v := v.(type) {
	case Iface:
		if v.T == nil {
			return nil
		}
		if s, ok := m.errorText(v); ok {
			return nativeErr{s}
		}
		if b, ok := v.T.Underlying().(*types.Basic); ok && b.Info()&types.IsInteger != 0 {
			if c, ok := v.V.(int64); ok {
				return int(c)
			}
		}
		return m.toNative(v.V)
	case int64:
		return int(v)
	case string, bool, float64:
		return v
	case *StrNum, *StrAtom, *StrCat:
		return m.concStr(v, "toNative")
	case Array:
		out := make([]byte, len(v))
		for i, x := range v {
			c, _ := x.(int64)
			out[i] = byte(c)
		}
		return out
	case *MapV:
		return m.exportJSON(v)
	case *SliceV:
		if v != nil && len(v.A) > 0 {
			isBytes := true
			for _, x := range v.A {
				switch x.(type) {
				case int64, *StrBlob, *JSONBlob, *JSONLeaf:
				default:
					isBytes = false
				}
			}
			if isBytes {
				return m.bytesOf(v)
			}
		}
		return m.exportJSON(v)
	case Ptr:
		if v == nil {
			return nil
		}
		return "<ptr>"
	}
	return "<opaque>"
}

// errorText renders err.Error() for the error types that occur in this code base
func (m *Machine) errorText(v Iface) (string, bool) {
	ts := v.T.String()
	switch ts {
	case "*errors.errorString", "*fmt.wrapError":
		p := v.V.(Ptr)
		if p == nil {
			return "<nil>", true
		}
		return m.concStr((*p).(Struct)[0], "error text"), true
	case "*github.com/buildbuildio/pebbles/gqlerrors.Error":
		p := v.V.(Ptr)
		if p == nil {
			return "<nil>", true
		}
		return m.concStr((*p).(Struct)[1], "error text"), true
	case "github.com/buildbuildio/pebbles/gqlerrors.ErrorList":
		var parts []string
		sl := v.V.(*SliceV)
		for _, e := range sl.A {
			s, _ := m.errorText(Iface{T: ptrTo(m.prog.ImportedPackage("github.com/buildbuildio/pebbles/gqlerrors").Type("Error").Type()), V: e})
			parts = append(parts, s)
		}
		return strings.Join(parts, ". "), true
	case "*github.com/vektah/gqlparser/v2/gqlerror.Error":
		p := v.V.(Ptr)
		if p == nil {
			return "<nil>", true
		}
		st := (*p).(Struct)
		// fields: err, Message, Path, Locations, Extensions, Rule
		return "input: " + m.concStr(st[1], "error text"), true
	}
	return "", false
}

func init() {
	// verifClosure(name, "fv1", v1, "fv2", v2, ...) builds a closure of the anonymous function <name>
	// of the harness package, binding its free variables by name.
	R("verifClosure", func(m *Machine, a []Value) Value {
		name := a[0].(string)
		var fn *ssa.Function
		hp := m.ex.ex.hpkg
		var walk func(f *ssa.Function)
		walk = func(f *ssa.Function) {
			for _, an := range f.AnonFuncs {
				if an.Name() == name {
					fn = an
				}
				walk(an)
			}
		}
		for _, mem := range hp.Members {
			if f, ok := mem.(*ssa.Function); ok {
				walk(f)
			}
			if t, ok := mem.(*ssa.Type); ok {
				for _, tt := range []types.Type{t.Type(), ptrTo(t.Type())} {
					ms := m.prog.MethodSets.MethodSet(tt)
					for i := 0; i < ms.Len(); i++ {
						if f := m.prog.MethodValue(ms.At(i)); f != nil {
							walk(f)
						}
					}
				}
			}
		}
		if fn == nil {
			m.fail("unsupported", "verifClosure: no anonymous function named "+name)
		}
		env := make([]Value, len(fn.FreeVars))
		rest := a[1].(*SliceV).A
		for i, fv := range fn.FreeVars {
			found := false
			for k := 0; k+1 < len(rest); k += 2 {
				if rest[k].(Iface).V.(string) == fv.Name() {
					v := rest[k+1].(Iface).V
					if pt, ok := fv.Type().(*types.Pointer); ok {
						// captured by reference unless the harness already passed a pointer of that type
						if hv, isPtr := rest[k+1].(Iface).T.(*types.Pointer); !isPtr || !types.Identical(hv, pt) {
							v = newCell(v)
						}
					}
					env[i] = v
					found = true
				}
			}
			if !found {
				m.fail("unsupported", "verifClosure: free variable "+fv.Name()+" of "+name+" not bound by the harness")
			}
		}
		return Iface{T: fn.Signature, V: &Closure{Fn: fn, Env: env}}
	})
}

// callSync runs an interpreted function to completion on goroutine g from inside an intrinsic
// (comparison callbacks of sort.Slice and friends). The callee must not block or reach a visible op.
func (m *Machine) callSync(g *G, fnv Value, args []Value) Value {
	depth := len(g.frames)
	switch f := fnv.(type) {
	case *Closure:
		if f == nil {
			m.throw("invalid memory address or nil pointer dereference (call of nil func)")
		}
		m.pushFrame(g, f.Fn, f.Env, args, nil)
	case *ssa.Function:
		m.pushFrame(g, f, nil, args, nil)
	default:
		m.fail("unsupported", fmt.Sprintf("callSync of %T", fnv))
	}
	var result Value
	m.top(g).onReturn = func(res Value) Value { result = res; return res }
	for len(g.frames) > depth {
		if g.state != Runnable {
			m.fail("unsupported", "callback blocked inside a library call")
		}
		if g.unwinding {
			m.fail("unsupported", "panic inside a library callback")
		}
		if !m.step(g) {
			m.fail("unsupported", "callback reached a synchronisation point inside a library call")
		}
	}
	return result
}

func init() {
	sortSlice := func(m *Machine, g *G, fr *Frame, in ssa.Instruction, args []Value) {
		sv, _ := args[0].(Iface).V.(*SliceV)
		less := args[1]
		if sv != nil {
			// stable insertion sort driven by the interpreted less(i, j); elements are moved in place
			n := len(sv.A)
			for i := 1; i < n; i++ {
				for j := i; j > 0; j-- {
					r := m.callSync(g, less, []Value{int64(j), int64(j - 1)})
					if !m.truth(r) {
						break
					}
					m.touch(&sv.A[j])
					m.touch(&sv.A[j-1])
					sv.A[j], sv.A[j-1] = sv.A[j-1], sv.A[j]
				}
			}
		}
		m.setResult(fr, in, nil)
	}
	intrinsics["sort.SliceStable"] = sortSlice
	intrinsics["sort.Slice"] = sortSlice
}
