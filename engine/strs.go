package main

import (
	"fmt"
	"go/types"
	"regexp"
	"strconv"
	"strings"
)

// Structured string tokens (DESIGN §2.4 tier 2): symbolic strings that are known up to
// their structure, evaluated syntactically on piece lists without SMT string theory.

// StrNum is the decimal numeral strconv.Itoa(N) (N: int64 or *Sym Int)
type StrNum struct{ N Value }

// StrAtom is an opaque non-empty string known only up to (dis)equality: Code is an Int term;
// two atoms are equal iff their codes are; code(c) of a constant string c is its index in the
// machine's string table, codes >= atomFreshBase denote strings different from every constant.
// Assumption (stated in evidence): an atom contains none of the separator characters the code
// under test splits on, and is not a decimal numeral.
type StrAtom struct {
	Name string
	Code *Sym
}

// StrCat is a concatenation of string / *StrNum / *StrAtom pieces
type StrCat struct{ Parts []Value }

// StrBlob wraps a symbolic string converted to []byte (kept opaque)
type StrBlob struct{ S Value }

const atomFreshBase = 1000000

var canonNum = regexp.MustCompile(`^(0|-?[1-9][0-9]*)$`)

func (m *Machine) strCode(s string) int64 {
	tbl := m.ex.ex.strTable
	tbl.mu.Lock()
	defer tbl.mu.Unlock()
	if c, ok := tbl.codes[s]; ok {
		return c
	}
	c := int64(len(tbl.strs))
	tbl.codes[s] = c
	tbl.strs = append(tbl.strs, s)
	return c
}

func (m *Machine) strOfCode(c int64) string {
	tbl := m.ex.ex.strTable
	tbl.mu.Lock()
	defer tbl.mu.Unlock()
	if c >= 0 && c < int64(len(tbl.strs)) {
		return tbl.strs[c]
	}
	return fmt.Sprintf("fresh%d", c-atomFreshBase)
}

// eqVal compares two values, returning bool or *Sym(Bool)
func (m *Machine) eqVal(a, b Value) Value {
	switch x := a.(type) {
	case *Sym:
		if x.Sort == "Bool" {
			return mkBoolEq(a, b)
		}
		return mkCmp("=", a, b)
	}
	switch y := b.(type) {
	case *Sym:
		if y.Sort == "Bool" {
			return mkBoolEq(a, b)
		}
		return mkCmp("=", a, b)
	}
	if isSymStr(a) || isSymStr(b) {
		return m.eqStr(a, b)
	}
	if ia, ok := a.(Iface); ok {
		ib, ok := b.(Iface)
		if !ok {
			return false
		}
		if ia.T == nil || ib.T == nil {
			return ia.T == nil && ib.T == nil
		}
		if !types.Identical(ia.T, ib.T) {
			return false
		}
		return m.eqVal(ia.V, ib.V)
	}
	return m.eqConcrete(a, b)
}

func (m *Machine) eqStr(a, b Value) Value {
	pa, pb := pieces(a), pieces(b)
	// strip equal concrete prefixes/suffixes, compare piecewise when structure matches
	if len(pa) == 1 && len(pb) == 1 {
		return m.eqPiece(pa[0], pb[0])
	}
	if len(pa) == len(pb) {
		// piecewise comparison is exact when the constant pieces act as delimiters that cannot
		// occur inside numerals/atoms (assumption of the token tier)
		var res Value = true
		for i := range pa {
			res = mkAnd(res, m.eqPiece(pa[i], pb[i]))
			if r, ok := res.(bool); ok && !r {
				return false
			}
		}
		return res
	}
	// different piece structure: try to align a concrete string against a pattern
	if s, ok := b.(string); ok {
		return m.matchPattern(pa, s)
	}
	if s, ok := a.(string); ok {
		return m.matchPattern(pb, s)
	}
	m.fail("unsupported", "equality of differently structured symbolic strings: "+show(a)+" vs "+show(b))
	return nil
}

// matchPattern decides pieces == s for a concrete s where constant pieces are delimiters.
func (m *Machine) matchPattern(ps []Value, s string) Value {
	// only patterns [const] sym [const] sym ... with unambiguous delimiters
	var res Value = true
	rest := s
	for i := 0; i < len(ps); i++ {
		switch p := ps[i].(type) {
		case string:
			if !strings.HasPrefix(rest, p) {
				return false
			}
			rest = rest[len(p):]
		default:
			// symbolic piece extends to the next constant delimiter (or end)
			end := len(rest)
			if i+1 < len(ps) {
				d, ok := ps[i+1].(string)
				if !ok {
					m.fail("unsupported", "adjacent symbolic pieces in string comparison")
				}
				end = strings.Index(rest, d)
				if end < 0 {
					return false
				}
			}
			res = mkAnd(res, m.eqPiece(p, rest[:end]))
			rest = rest[end:]
		}
	}
	if rest != "" {
		return false
	}
	return res
}

func (m *Machine) eqPiece(a, b Value) Value {
	switch x := a.(type) {
	case string:
		switch y := b.(type) {
		case string:
			return x == y
		default:
			return m.eqPiece(b, a)
		}
	case *StrNum:
		switch y := b.(type) {
		case *StrNum:
			return mkCmp("=", x.N, y.N)
		case string:
			if !canonNum.MatchString(y) {
				return false // Itoa never produces it
			}
			v, err := strconv.ParseInt(y, 10, 64)
			if err != nil {
				return false
			}
			return mkCmp("=", x.N, v)
		case *StrAtom:
			return false // atoms are not numerals (assumption)
		}
	case *StrAtom:
		switch y := b.(type) {
		case *StrAtom:
			return mkCmp("=", x.Code, y.Code)
		case string:
			if y == "" {
				return false
			}
			return mkCmp("=", x.Code, m.strCode(y))
		case *StrNum:
			return false
		}
	}
	m.fail("unsupported", fmt.Sprintf("eqPiece %T %T", a, b))
	return nil
}

func pieces(v Value) []Value {
	switch v := v.(type) {
	case string:
		return []Value{v}
	case *StrNum, *StrAtom:
		return []Value{v}
	case *StrCat:
		return v.Parts
	}
	panic(fmt.Sprintf("pieces %T", v))
}

func normCat(ps []Value) Value {
	var out []Value
	for _, p := range ps {
		if n, ok := p.(*StrNum); ok {
			if c, ok := n.N.(int64); ok {
				p = strconv.FormatInt(c, 10)
			}
		}
		if s, ok := p.(string); ok {
			if s == "" {
				continue
			}
			if len(out) > 0 {
				if prev, ok := out[len(out)-1].(string); ok {
					out[len(out)-1] = prev + s
					continue
				}
			}
		}
		out = append(out, p)
	}
	switch len(out) {
	case 0:
		return ""
	case 1:
		return out[0]
	}
	return &StrCat{out}
}

func strSlice(vs []Value) *SliceV {
	return &SliceV{A: vs}
}

func (m *Machine) symStrLen(v Value) Value {
	m.fail("unsupported", "len of symbolic string "+show(v))
	return nil
}

// splitPieces implements strings.Split / SplitN on a piece list. sep must not be able to occur
// inside a numeral or an atom.
func (m *Machine) splitPieces(v Value, sep string, n int) []Value {
	if sep == "" || canonNum.MatchString(sep) || sep == "-" {
		m.fail("unsupported", "Split separator may occur inside a numeral")
	}
	var res []Value
	cur := []Value{}
	done := false
	for _, p := range pieces(v) {
		if s, ok := p.(string); ok && !done {
			for {
				if n > 0 && len(res) == n-1 {
					done = true
					cur = append(cur, s)
					break
				}
				i := strings.Index(s, sep)
				if i < 0 {
					cur = append(cur, s)
					break
				}
				cur = append(cur, s[:i])
				res = append(res, normCat(cur))
				cur = []Value{}
				s = s[i+len(sep):]
			}
		} else {
			cur = append(cur, p)
		}
	}
	res = append(res, normCat(cur))
	return res
}

// containsPieces: strings.Contains(v, sub) for a delimiter-like sub
func (m *Machine) containsPieces(v Value, sub string) bool {
	if canonNum.MatchString(sub) || sub == "-" || sub == "" {
		m.fail("unsupported", "Contains argument may occur inside a numeral")
	}
	for _, p := range pieces(v) {
		if s, ok := p.(string); ok && strings.Contains(s, sub) {
			return true
		}
	}
	// a delimiter spanning a piece boundary is excluded by the token assumption
	return false
}

// concStr forces a symbolic string to a concrete one by case-splitting its symbolic parts.
func (m *Machine) concStr(v Value, what string) string {
	switch v := v.(type) {
	case string:
		return v
	case *StrNum:
		return strconv.FormatInt(m.concInt(v.N, what), 10)
	case *StrAtom:
		return m.strOfCode(m.concInt(v.Code, what))
	case *StrCat:
		var sb strings.Builder
		for _, p := range v.Parts {
			sb.WriteString(m.concStr(p, what))
		}
		return sb.String()
	}
	panic(fmt.Sprintf("concStr %T", v))
}

func (m *Machine) errorValue(msg string) Value {
	ep := m.prog.ImportedPackage("errors")
	t := ptrTo(ep.Type("errorString").Type())
	return Iface{T: t, V: newCell(Struct{msg})}
}
