package main

func init() {
	reg(&Property{
		ID:    "C14",
		Title: "The plan cache never changes an answer",
		Kernels: []Kernel{
			{Name: "cache-history", Pkg: "planner", Files: []string{"planner/c14.go"}, Entry: "VerifCacheHistory", Mode: "seq",
				Quick: map[string]int{"hmax": 2}, Thorough: map[string]int{"hmax": 3},
				Reach:     []string{"history of several requests", "unplannable operation"},
				Functions: []string{"planner.(*CachedPlanner).Plan", "planner.(*CachedPlanner).hash", "planner.(*CachedPlanner).clean", "planner.NewCachedPlanner", "planner.SequentialPlanner.Plan", "format.(*BufferedFormatter).FormatSelectionSet"}},
			{Name: "cache-concurrent", Pkg: "planner", Files: []string{"planner/c14.go"}, Entry: "VerifCacheConcurrent", Mode: "all", Race: true, Native: true,
				Reach:     []string{"concurrent plans", "concurrent plans on a used cache"},
				Functions: []string{"planner.(*CachedPlanner).Plan", "planner.(*CachedPlanner).clean"}},
			{Name: "cache-through-gateway", Pkg: ".", Files: []string{"root/fed.go", "root/c01.go", "root/c14g.go"}, Entry: "VerifCacheGateway", Mode: "seq", Native: true,
				Quick: map[string]int{"hmax": 2}, Thorough: map[string]int{"hmax": 3},
				Reach:     []string{"history through the gateway"},
				Functions: []string{"(*Gateway).queryHandler", "planner.(*CachedPlanner).Plan", "planner.(*CachedPlanner).hash", "planner.SequentialPlanner.Plan", "executor.ParallelExecutor.Execute", "planner.ScrubFields.Clean"}},
			{Name: "cache-mixed-introspection", Pkg: ".", Files: []string{"root/fed.go", "root/c01.go", "root/c14g.go"}, Entry: "VerifCacheGateway", Mode: "seq",
				Quick: map[string]int{"hmax": 2, "mixedpool": 1, "maporder": 1}, Thorough: map[string]int{"hmax": 3, "mixedpool": 1, "maporder": 1, "budget_s": 7200},
				Reach:     []string{"history through the gateway"},
				Functions: []string{"(*Gateway).queryHandler", "(*Gateway).parseIntrospectionQuery", "planner.(*CachedPlanner).Plan", "planner.routeSelectionSet"}},
			{Name: "introspection-history-on-cached-plans", Pkg: ".", Files: []string{"root/fed.go", "root/c01.go", "root/c16.go"}, Entry: "VerifIntrospectionHistory", Mode: "seq",
				Quick: map[string]int{"hmax": 2}, Thorough: map[string]int{"hmax": 3},
				Reach: []string{"history answered"}, Functions: []string{"(*Gateway).queryHandler", "(*Gateway).parseIntrospectionQuery", "planner.(*CachedPlanner).Plan", "planner.(*CachedPlanner).hash", "introspection.(*IntrospectionResolver).*"}},
			{Name: "subscriptions-on-cached-plan", Pkg: ".", Files: []string{"root/fed.go", "root/c01.go", "root/ws.go", "root/c17.go"}, Entry: "VerifEvents", Mode: "seq",
				Quick: map[string]int{"cached": 1, "maxsubs": 2, "maxevents": 1, "quickmerge": 0}, Thorough: map[string]int{"cached": 1, "maxsubs": 2, "maxevents": 2, "quickmerge": 0},
				Reach:     []string{"two subscriptions", "events checked"},
				Functions: []string{"(*Gateway).newSubscriptionEntry", "planner.(*CachedPlanner).Plan", "(*subscriptionEntry).Listen", "(*subscriptionEntry).prepareResponse"}},
		},
		Assume: []string{
			"cache-through-gateway: hmax requests from a 7-entry pool (one document with two operations under both names, same selection under another type, id-helper pair, symbolic variable value) on one gateway with the caching planner, each answer compared with the single-server reference",
			"subscriptions-on-cached-plan: the C17 event kernel (websocket model, canonical schedule) with the caching planner installed",
			"time.Now is a symbolic monotone clock (every reading >= the previous one); TTL in {0, 1, 10} ns",
			"gqlparser runs natively on the concrete operation strings of the pool; sha1 runs natively on concrete input",
			"engine's model of sync.RWMutex; happens-before race detector on the two cache maps",
		},
		Outside: []string{"histories longer than hmax", "operations outside the 11-entry pool", "more than two concurrent requests"},
	})
}
