package main

func init() {
	reg(&Property{
		ID:    "C14",
		Title: "The plan cache never changes an answer",
		Kernels: []Kernel{
			{Name: "cache-history", Pkg: "planner", Files: []string{"planner/c14.go"}, Entry: "VerifCacheHistory", Mode: "seq",
				Quick: map[string]int{"hmax": 2}, Thorough: map[string]int{"hmax": 3},
				Reach:     []string{"history of several requests", "unplannable operation"},
				Known:     []string{"C14-operation-type-not-in-key", "C14-operation-name-not-in-key"},
				Functions: []string{"planner.(*CachedPlanner).Plan", "planner.(*CachedPlanner).hash", "planner.(*CachedPlanner).clean", "planner.NewCachedPlanner", "planner.SequentialPlanner.Plan", "format.(*BufferedFormatter).FormatSelectionSet"}},
			{Name: "cache-concurrent", Pkg: "planner", Files: []string{"planner/c14.go"}, Entry: "VerifCacheConcurrent", Mode: "all", Race: true,
				Reach:     []string{"concurrent plans"},
				Functions: []string{"planner.(*CachedPlanner).Plan", "planner.(*CachedPlanner).clean"}},
		},
		Assume: []string{
			"time.Now is a symbolic monotone clock (every reading >= the previous one); TTL in {0, 1, 10} ns",
			"gqlparser runs natively on the concrete operation strings of the pool; sha1 runs natively on concrete input",
			"engine's model of sync.RWMutex; happens-before race detector on the two cache maps",
		},
		Outside: []string{"histories longer than hmax", "operations outside the 11-entry pool", "more than two concurrent requests"},
	})
}
