package main

func init() {
	fns := []string{"queryer.(*MultiOpQueryer).Query", "queryer.(*MultiOpQueryer).Query$1", "queryer.(*MultiOpQueryer).Query$2", "queryer.(*MultiOpQueryer).queryBatch",
		"queryer.(*MultiOpQueryer).fetch", "queryer.(*MultiOpQueryer).fetchFile", "queryer.extractFiles", "queryer.(*MultiOpQueryer).sendQueryRequest",
		"queryer.(*MultiOpQueryer).sendRequest", "common.AsyncMapReduce[int,*chunkResponse,[]map[string]interface{}]", "lo.Range"}
	reg(&Property{
		ID:    "C11",
		Title: "Downstream batching is transparent",
		Kernels: []Kernel{
			{Name: "query-all-interleavings", Pkg: "queryer", Files: []string{"queryer/c11.go"}, Entry: "VerifQuery", Mode: "all", Race: true, Native: true,
				Quick:    map[string]int{"nmax": 3, "mmax": 3},
				Thorough: map[string]int{"nmax": 4, "mmax": 4},
				Reach:    []string{"some call failed", "several chunks", "empty input", "second call"}, Functions: fns},
			{Name: "query-canonical-schedule", Pkg: "queryer", Files: []string{"queryer/c11.go"}, Entry: "VerifQuery", Mode: "seq", Native: true,
				Quick:    map[string]int{"nmax": 7, "mmax": 4},
				Thorough: map[string]int{"nmax": 9, "mmax": 6},
				Reach:    []string{"some call failed", "several chunks", "empty input", "second call"}, Functions: fns},
			{Name: "mixed-uploads", Pkg: "queryer", Files: []string{"queryer/c11.go"}, Entry: "VerifMixedUploads", Mode: "seq",
				Quick:    map[string]int{"nmax": 4, "mmax": 3},
				Thorough: map[string]int{"nmax": 6, "mmax": 4},
				Reach:    []string{"uploads mixed with plain requests", "upload answered with nothing"}, Functions: fns},
			{Name: "splice-inductive-step", Pkg: "queryer", Files: []string{"queryer/c11.go"}, Entry: "VerifSplice", Mode: "seq",
				Quick:    map[string]int{"nmax": 8},
				Thorough: map[string]int{"nmax": 12},
				Reach:    []string{"empty last chunk (N multiple of m)", "middle chunk"}, Functions: []string{"queryer.(*MultiOpQueryer).Query$2"}},
		},
		Assume: []string{
			"net/http client replaced by the harness transport verifDo (one call = one invocation); encoding/json replaced by the abstract codec (typed rules driven by go/types struct tags)",
			"query-canonical-schedule runs the real AsyncMapReduce under one canonical schedule (larger N, m: arithmetic of chunk count, slice bounds, call sizes, failure reporting); completion orders are covered by query-all-interleavings (small N) and by splice-inductive-step (any order, any number of chunks)",
			"mixed-uploads: every request may carry a file (then it is sent alone as multipart/form-data through the multipart-writer model) at every position of the input, canonical schedule, healthy transport",
			"splice-inductive-step assumes the accumulator invariant: length N, positions of already reduced chunks hold their answers, all others are nil",
		},
		Outside: []string{"N or m beyond the stated bounds", "m < 1", "malformed downstream answers (C09)"},
	})
}
