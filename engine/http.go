package main

import (
	"fmt"
	"go/types"
	"mime"
	"net/textproto"
	"strings"

	"golang.org/x/tools/go/ssa"
)

// Environment model for net/http, io, mime/multipart (DESIGN §2.6). Requests and responses are
// the real struct types (so that field accesses of the code under test work) plus side tables.

func (m *Machine) namedType(pkg, name string) types.Type {
	p := m.prog.ImportedPackage(pkg)
	if p == nil || p.Type(name) == nil {
		m.fail("unsupported", "type "+pkg+"."+name+" not loaded")
	}
	return p.Type(name).Type()
}

func fieldIndex(t types.Type, name string) int {
	st := t.Underlying().(*types.Struct)
	for i := 0; i < st.NumFields(); i++ {
		if st.Field(i).Name() == name {
			return i
		}
	}
	panic("no field " + name + " in " + t.String())
}

func (m *Machine) setField(p Ptr, t types.Type, name string, v Value) {
	(*p).(Struct)[fieldIndex(t, name)] = v
}

func (m *Machine) getField(p Ptr, t types.Type, name string) Value {
	return (*p).(Struct)[fieldIndex(t, name)]
}

// harnessFunc finds a function declared by the harness (used as callback from intrinsics)
func (m *Machine) harnessFunc(name string) *ssa.Function {
	ex := m.ex.ex
	if ex.hpkg != nil {
		if f := ex.hpkg.Func(name); f != nil {
			return f
		}
	}
	m.fail("unsupported", "harness does not define "+name)
	return nil
}

// readerDrain reads everything from a modelled reader value (harness body types, opaque files,
// byte buffers) and leaves it drained, as io.ReadAll / io.Copy would.
func (m *Machine) readerDrain(r Iface) (data *SliceV, err Value) {
	if r.T == nil {
		m.throw("invalid memory address or nil pointer dereference (read from nil io.Reader)")
	}
	p, ok := r.V.(Ptr)
	if !ok || p == nil {
		m.fail("unsupported", "reader of type "+r.T.String())
	}
	if b, ok := m.bufs[p]; ok { // bytes.Buffer / bytes.Reader
		out := &SliceV{A: append([]Value{}, (*b)...)}
		*b = nil
		return out, Iface{}
	}
	switch x := (*p).(type) {
	case *Opaque:
		if lr, ok := x.X.(*limitedReader); ok {
			// io.LimitReader(inner, n): the first n bytes of the stream. The stream of a harness body is
			// pad blanks (a symbolic count, never materialised) followed by its data.
			pad := m.readerPad(lr.inner)
			data, err := m.readerDrain(lr.inner)
			total := mkArith("+", pad, int64(len(data.A)))
			if m.truth(mkCmp("<=", total, lr.n)) {
				return data, err
			}
			if m.truth(mkCmp(">=", pad, lr.n)) {
				return &SliceV{A: []Value{}}, err // nothing but blanks fits
			}
			k := m.concInt(mkArith("-", lr.n, pad), "cut point of a limited reader")
			if k < 0 {
				k = 0
			}
			if k > int64(len(data.A)) {
				k = int64(len(data.A))
			}
			return &SliceV{A: append([]Value{}, data.A[:k]...)}, err
		}
		if f, ok := x.X.(*fileModel); ok {
			// reading moves the file's offset: unsynchronised readers of one file race
			m.raceAccess(m.cur, f, true, m.curIn)
			out := &SliceV{A: []Value{}}
			if f.closed {
				return out, m.errorValue("read " + f.name + ": file already closed")
			}
			if !f.drained {
				out.A = append(out.A, f.content...)
			}
			f.drained = true
			return out, Iface{}
		}
	case Struct:
		// harness convention: first field holds the data ([]byte), optional second field an error to return
		if len(x) >= 1 {
			if sv, ok := x[0].(*SliceV); ok {
				out := &SliceV{A: []Value{}}
				if sv != nil {
					out.A = append(out.A, sv.A...)
				}
				x[0] = &SliceV{A: []Value{}}
				var e Value = Iface{}
				if len(x) >= 2 {
					if ei, ok := x[1].(Iface); ok && ei.T != nil {
						e = ei
					}
				}
				return out, e
			}
		}
	}
	m.fail("unsupported", "reader of type "+r.T.String())
	return nil, nil
}

type limitedReader struct {
	inner Iface
	n     Value
}

func (l *limitedReader) hashInto(h *hasher) { fmt.Fprintf(&h.sb, "limited(%v)", l.n) }

// readerPad: the number of blanks that precede the data of a harness body (third field of the body
// struct; 0 for every other reader). Consumers of a drained body are JSON decoders, for which leading
// blanks mean nothing, so the blanks are never materialised: only a limited reader has to count them.
func (m *Machine) readerPad(r Iface) Value {
	if p, ok := r.V.(Ptr); ok && p != nil {
		if x, ok := (*p).(Struct); ok && len(x) >= 3 {
			switch v := x[2].(type) {
			case int64, *Sym:
				return v
			}
		}
	}
	return int64(0)
}

type fileModel struct {
	name    string
	content []Value // byte values / blobs
	drained bool
	closed  bool
	spilled bool // larger than ParseMultipartForm's memory limit: backed by a temporary *os.File, whose Close is not a no-op
}

func (f *fileModel) hashInto(h *hasher) {
	fmt.Fprintf(&h.sb, "file(%s,%v,%v,%v,%d)", f.name, f.drained, f.closed, f.spilled, len(f.content))
}

type multipartModel struct {
	fields map[string]Value
	files  map[string]*fileModel
	bad    bool
}

// multipart writer model (client side, queryer/files.go)
type mpWriter struct {
	buf    Ptr // *bytes.Buffer the writer writes to
	parts  []*mpPart
	closed bool
}

type mpPart struct {
	field    string
	filename string
	isFile   bool
	data     []Value
}

func (w *mpWriter) hashInto(h *hasher) {
	fmt.Fprintf(&h.sb, "mpw(%d,%v)", len(w.parts), w.closed)
}

func init() {
	// ---- client side ----
	// NewRequest: as net/http does for *bytes.Buffer / *bytes.Reader / *strings.Reader bodies, GetBody is
	// set (to a closure the harness package supplies as verifGetBodyMaker(b []byte) func() (io.ReadCloser, error);
	// without that helper GetBody stays nil, which is what net/http does for other readers)
	mkReq := func(off int) func(m *Machine, g *G, fr *Frame, in ssa.Instruction, a []Value) {
		return func(m *Machine, g *G, fr *Frame, in ssa.Instruction, a []Value) {
			res := m.newRequest(a[off], a[off+1], a[off+2])
			if t, ok := res.(Tuple); ok {
				if c, ok := t[0].(Ptr); ok && c != nil {
					if d, has := m.side[c]; has && d != nil && m.bodyIsInMemory(a[off+2]) {
						if mk, ok := m.ex.ex.hpkg.Members["verifGetBodyMaker"].(*ssa.Function); ok {
							cl := m.callSync(g, mk, []Value{d})
							m.setField(c, m.namedType("net/http", "Request"), "GetBody", cl)
						}
					}
				}
			}
			m.setResult(fr, in, res)
		}
	}
	intrinsics["net/http.NewRequest"] = mkReq(0)
	intrinsics["net/http.NewRequestWithContext"] = mkReq(1)
	// WithContext: the context is stored in the request (the model does not copy the request)
	R("(*net/http.Request).WithContext", func(m *Machine, a []Value) Value {
		m.touch(a[0].(Ptr))
		m.setField(a[0].(Ptr), m.namedType("net/http", "Request"), "ctx", a[1])
		return a[0]
	})
	R("(*net/http.Request).Context", func(m *Machine, a []Value) Value {
		if c, ok := m.getField(a[0].(Ptr), m.namedType("net/http", "Request"), "ctx").(Iface); ok && c.T != nil {
			return c
		}
		return m.opaqueIface("context", "emptyCtx", "background")
	})
	hdrKey := func(m *Machine, v Value) string {
		return textproto.CanonicalMIMEHeaderKey(m.concStr(v, "header key"))
	}
	R("(net/http.Header).Set", func(m *Machine, a []Value) Value {
		h := a[0].(*MapV)
		if h == nil {
			m.throw("assignment to entry in nil map (Header.Set)")
		}
		h.set(m, hdrKey(m, a[1]), &SliceV{A: []Value{a[2]}})
		return nil
	})
	R("(net/http.Header).Add", func(m *Machine, a []Value) Value {
		h := a[0].(*MapV)
		if h == nil {
			m.throw("assignment to entry in nil map (Header.Add)")
		}
		k := hdrKey(m, a[1])
		if i := h.find(m, k); i >= 0 {
			old := h.Vals[i].(*SliceV)
			h.Vals[i] = &SliceV{A: append(append([]Value{}, old.A...), a[2])}
		} else {
			h.set(m, k, &SliceV{A: []Value{a[2]}})
		}
		return nil
	})
	R("(net/http.Header).Get", func(m *Machine, a []Value) Value {
		h := a[0].(*MapV)
		if i := h.find(m, hdrKey(m, a[1])); i >= 0 {
			if sv := h.Vals[i].(*SliceV); sv != nil && len(sv.A) > 0 {
				return sv.A[0]
			}
		}
		return ""
	})
	R("(net/http.Header).Del", func(m *Machine, a []Value) Value {
		if h := a[0].(*MapV); h != nil {
			h.del(m, hdrKey(m, a[1]))
		}
		return nil
	})
	// net/textproto.MIMEHeader has the same representation and methods
	for _, meth := range []string{"Set", "Add", "Get", "Del"} {
		intrinsics["(net/textproto.MIMEHeader)."+meth] = intrinsics["(net/http.Header)."+meth]
	}
	R("(net/url.Values).Get", func(m *Machine, a []Value) Value {
		h := a[0].(*MapV)
		if i := h.find(m, a[1]); i >= 0 {
			if sv := h.Vals[i].(*SliceV); sv != nil && len(sv.A) > 0 {
				return sv.A[0]
			}
		}
		return ""
	})
	intrinsics["(*net/http.Client).Do"] = func(m *Machine, g *G, fr *Frame, in ssa.Instruction, args []Value) {
		f := m.harnessFunc("verifDo")
		if in == nil {
			m.fail("unsupported", "http.Client.Do in deferred position")
		}
		// as net/http's transport: a request whose context is already cancelled is not sent
		if c, ok := m.getField(args[1].(Ptr), m.namedType("net/http", "Request"), "ctx").(Iface); ok && c.T != nil {
			if p, isPtr := c.V.(Ptr); isPtr && p != nil {
				if o, isOp := (*p).(*Opaque); isOp && o.Kind == "cancelCtx" && o.X.(*Chan).Closed {
					m.setResult(fr, in, Tuple{Ptr(nil), m.ctxCanceledErr(true)})
					return
				}
			}
		}
		m.pushFrame(g, f, nil, []Value{args[1]}, in)
	}
	readAll := func(m *Machine, a []Value) Value {
		data, err := m.readerDrain(a[0].(Iface))
		return Tuple{data, err}
	}
	// NopCloser: the reader itself (Close is a no-op in the model of every reader); what matters is that
	// http.NewRequest does not recognise the wrapper and sets no GetBody for it
	nop := func(m *Machine, a []Value) Value {
		t := m.namedType("io", "LimitedReader")
		c := newCell(Value(&Opaque{Kind: "nopCloser", X: &limitedReader{inner: a[0].(Iface), n: int64(1) << 62}}))
		return Iface{T: ptrTo(t), V: c}
	}
	R("io/ioutil.NopCloser", nop)
	R("io.NopCloser", nop)
	R("io.LimitReader", func(m *Machine, a []Value) Value {
		t := m.namedType("io", "LimitedReader")
		c := newCell(Value(&Opaque{Kind: "limitedReader", X: &limitedReader{inner: a[0].(Iface), n: a[1]}}))
		return Iface{T: ptrTo(t), V: c}
	})
	R("io/ioutil.ReadAll", readAll)
	R("io.ReadAll", readAll)
	R("verifRequestBody", func(m *Machine, a []Value) Value {
		p := a[0].(Ptr)
		if b, ok := m.side[p]; ok {
			return b
		}
		// server-side style request: Body field
		body := m.getField(p, m.namedType("net/http", "Request"), "Body").(Iface)
		if body.T == nil {
			return &SliceV{Nil: true}
		}
		d, _ := m.readerDrain(body)
		return d
	})
	R("verifRequestContentType", func(m *Machine, a []Value) Value {
		p := a[0].(Ptr)
		h := m.getField(p, m.namedType("net/http", "Request"), "Header").(*MapV)
		if i := h.find(m, "Content-Type"); i >= 0 {
			return h.Vals[i].(*SliceV).A[0]
		}
		return ""
	})
	// the multipart tree a client-side request carries (nil if the body is not multipart)
	R("verifRequestMultipart", func(m *Machine, a []Value) Value {
		p := a[0].(Ptr)
		body, _ := m.side[p].(*SliceV)
		if body != nil && len(body.A) == 1 {
			if o, ok := body.A[0].(*Opaque); ok && o.Kind == "multipart" {
				return m.exportMultipart(o.X.(*mpWriter))
			}
		}
		return (*MapV)(nil)
	})

	// ---- io.Copy / multipart writer ----
	intrinsics["io.Copy"] = func(m *Machine, g *G, fr *Frame, in ssa.Instruction, args []Value) {
		data, err := m.readerDrain(args[1].(Iface))
		if e := err.(Iface); e.T != nil {
			m.setResult(fr, in, Tuple{int64(0), err})
			return
		}
		m.callWrite(g, fr, in, args[0].(Iface), data, func(res Value) Value { return res })
	}
	R("mime/multipart.NewWriter", func(m *Machine, a []Value) Value {
		t := m.namedType("mime/multipart", "Writer")
		c := newCell(zero(t))
		w := a[0].(Iface)
		mw := &mpWriter{}
		if p, ok := w.V.(Ptr); ok {
			mw.buf = p
		}
		m.side[c] = &Opaque{Kind: "multipart", X: mw}
		m.native[fmt.Sprintf("mpw%d", len(m.native))] = mw
		return c
	})
	mpw := func(m *Machine, v Value) *mpWriter { return m.side[v.(Ptr)].(*Opaque).X.(*mpWriter) }
	partWriter := func(m *Machine, w *mpWriter, p *mpPart) Value {
		w.parts = append(w.parts, p)
		t := m.namedType("mime/multipart", "part")
		c := newCell(zero(t))
		m.side[c] = &Opaque{Kind: "mppart", X: p}
		return Iface{T: ptrTo(t), V: c}
	}
	R("(*mime/multipart.Writer).CreateFormField", func(m *Machine, a []Value) Value {
		w := mpw(m, a[0])
		if w.closed {
			return Tuple{Iface{}, m.errorValue("multipart: can't create part after Close")}
		}
		return Tuple{partWriter(m, w, &mpPart{field: m.concStr(a[1], "form field name")}), Iface{}}
	})
	R("(*mime/multipart.Writer).CreateFormFile", func(m *Machine, a []Value) Value {
		w := mpw(m, a[0])
		if w.closed {
			return Tuple{Iface{}, m.errorValue("multipart: can't create part after Close")}
		}
		return Tuple{partWriter(m, w, &mpPart{field: m.concStr(a[1], "form file field"), filename: m.concStr(a[2], "file name"), isFile: true}), Iface{}}
	})
	// CreatePart: the part is what a receiving mime/multipart reader makes of the header the caller built
	// (Content-Disposition parsed natively by mime.ParseMediaType, as multipart.Part.FormName/FileName do;
	// a header it cannot parse leaves the part without form name)
	R("(*mime/multipart.Writer).CreatePart", func(m *Machine, a []Value) Value {
		w := mpw(m, a[0])
		if w.closed {
			return Tuple{Iface{}, m.errorValue("multipart: can't create part after Close")}
		}
		p := &mpPart{}
		if h, ok := a[1].(*MapV); ok && h != nil {
			if i := h.find(m, "Content-Disposition"); i >= 0 {
				if sv := h.Vals[i].(*SliceV); sv != nil && len(sv.A) > 0 {
					cd := m.concStr(sv.A[0], "Content-Disposition")
					if mt, params, err := mime.ParseMediaType(cd); err == nil && mt == "form-data" {
						p.field = params["name"]
						p.filename, p.isFile = params["filename"], false
						if _, has := params["filename"]; has {
							p.isFile = true
						}
					}
				}
			}
		}
		return Tuple{partWriter(m, w, p), Iface{}}
	})
	R("(*mime/multipart.part).Write", func(m *Machine, a []Value) Value {
		p := m.side[a[0].(Ptr)].(*Opaque).X.(*mpPart)
		d := a[1].(*SliceV)
		if d != nil {
			p.data = append(p.data, d.A...)
		}
		n := int64(0)
		if d != nil {
			n = int64(len(d.A))
		}
		return Tuple{n, Iface{}}
	})
	R("(*mime/multipart.Writer).Close", func(m *Machine, a []Value) Value {
		w := mpw(m, a[0])
		w.closed = true
		if w.buf != nil {
			// the buffer now "contains" the multipart document
			*m.buf(w.buf) = []Value{m.side[a[0].(Ptr)]}
		}
		return Iface{}
	})
	R("(*mime/multipart.Writer).FormDataContentType", func(m *Machine, a []Value) Value {
		return "multipart/form-data; boundary=verif"
	})
	R("(*mime/multipart.Writer).Boundary", func(m *Machine, a []Value) Value { return "verif" })
}

func (m *Machine) newRequest(method, url, body Value) Value {
	t := m.namedType("net/http", "Request")
	c := newCell(zero(t))
	m.setField(c, t, "Method", method)
	m.setField(c, t, "Header", &MapV{})
	m.setField(c, t, "Proto", "HTTP/1.1")
	m.setField(c, t, "Host", url) // the harness transport routes on it
	if bi, ok := body.(Iface); ok && bi.T != nil {
		if p, ok := bi.V.(Ptr); ok && p != nil {
			if b, ok := m.bufs[p]; ok {
				m.side[c] = &SliceV{A: append([]Value{}, (*b)...)}
			} else {
				d, _ := m.readerDrain(bi)
				m.side[c] = d
			}
		}
	}
	_ = url
	mth := m.concStr(method, "http method")
	if strings.ContainsAny(mth, " \t\r\n") {
		return Tuple{Ptr(nil), m.errorValue("net/http: invalid method")}
	}
	return Tuple{c, Iface{}}
}

// exportMultipart renders the multipart model as a generic map for harness inspection:
// {"<field>": {"filename": .., "isFile": .., "data": []byte-as-string or JSON tree}}
func (m *Machine) exportMultipart(w *mpWriter) Value {
	out := &MapV{}
	for _, p := range w.parts {
		e := &MapV{}
		e.set(m, "filename", gtStr(p.filename))
		e.set(m, "isFile", gtBool(p.isFile))
		e.set(m, "data", Iface{T: types.NewSlice(types.Typ[types.Byte]), V: &SliceV{A: append([]Value{}, p.data...)}})
		out.set(m, p.field, gtObj(e))
	}
	return out
}

// ---- server side of multipart/form-data (requests.Parse) ----
func init() {
	// verifSetMultipart(req, fieldNames, fieldValues, fileKeys, fileNames, fileContents): attaches a parsed
	// multipart form to an incoming request (mime/multipart itself is not modelled)
	R("verifSetMultipart", func(m *Machine, a []Value) Value {
		req := a[0].(Ptr)
		mm := &multipartModel{fields: map[string]Value{}, files: map[string]*fileModel{}}
		fn, fv := a[1].(*SliceV), a[2].(*SliceV)
		for i := range fn.A {
			mm.fields[m.concStr(fn.A[i], "multipart field")] = fv.A[i]
		}
		fk, fnm, fc := a[3].(*SliceV), a[4].(*SliceV), a[5].(*SliceV)
		for i := range fk.A {
			content := bytesVal([]byte(m.concStr(fc.A[i], "file content"))).(*SliceV).A
			mm.files[m.concStr(fk.A[i], "file key")] = &fileModel{name: m.concStr(fnm.A[i], "file name"), content: content}
		}
		m.side[req] = &Opaque{Kind: "multipartform", X: mm}
		return nil
	})
	// verifSpillFiles(req): the files of the request are larger than the in-memory limit of
	// ParseMultipartForm, i.e. FormFile hands out temporary *os.File objects: Close really closes them
	R("verifSpillFiles", func(m *Machine, a []Value) Value {
		if o, ok := m.side[a[0].(Ptr)].(*Opaque); ok && o.Kind == "multipartform" {
			for _, f := range o.X.(*multipartModel).files {
				f.spilled = true
			}
		}
		return nil
	})
	fileClose := func(m *Machine, a []Value) Value {
		var cell Value = a[0]
		if p, ok := cell.(Ptr); ok && p != nil {
			cell = *p
		}
		if o, ok := cell.(*Opaque); ok {
			if f, ok := o.X.(*fileModel); ok {
				if f.spilled {
					if f.closed {
						return m.errorValue("close " + f.name + ": file already closed")
					}
					f.closed = true
				}
				return Iface{}
			}
		}
		m.fail("unsupported", "Close of an unmodelled multipart file")
		return nil
	}
	// Seek(0, io.SeekStart) rewinds a modelled file (other offsets are outside the model)
	fileSeek := func(m *Machine, a []Value) Value {
		var cell Value = a[0]
		if p, ok := cell.(Ptr); ok && p != nil {
			cell = *p
		}
		o, _ := cell.(*Opaque)
		f, _ := o.X.(*fileModel)
		if f == nil {
			m.fail("unsupported", "Seek of an unmodelled multipart file")
		}
		if m.concInt(a[1], "seek offset") != 0 || m.concInt(a[2], "seek whence") != 0 {
			m.fail("unsupported", "Seek other than (0, io.SeekStart) on a modelled file")
		}
		if f.closed {
			return Tuple{int64(0), m.errorValue("seek " + f.name + ": file already closed")}
		}
		m.raceAccess(m.cur, f, true, m.curIn)
		f.drained = false
		return Tuple{int64(0), Iface{}}
	}
	R("(*mime/multipart.sectionReadCloser).Seek", fileSeek)
	R("(mime/multipart.sectionReadCloser).Seek", fileSeek)
	R("(*mime/multipart.sectionReadCloser).Close", fileClose)
	R("(mime/multipart.sectionReadCloser).Close", fileClose)
	R("(*net/http.Request).ParseMultipartForm", func(m *Machine, a []Value) Value {
		req := a[0].(Ptr)
		o, ok := m.side[req].(*Opaque)
		if !ok || o.Kind != "multipartform" {
			return m.errorValue("request Content-Type isn't multipart/form-data")
		}
		mm := o.X.(*multipartModel)
		form := &MapV{}
		for k, v := range mm.fields {
			form.set(m, k, &SliceV{A: []Value{v}})
		}
		// deterministic order
		form2 := &MapV{}
		keys := make([]string, 0, len(mm.fields))
		for k := range mm.fields {
			keys = append(keys, k)
		}
		sortStrings(keys)
		for _, k := range keys {
			form2.set(m, k, &SliceV{A: []Value{mm.fields[k]}})
		}
		m.setField(req, m.namedType("net/http", "Request"), "Form", form2)
		return Iface{}
	})
	R("(*net/http.Request).FormFile", func(m *Machine, a []Value) Value {
		req := a[0].(Ptr)
		o, ok := m.side[req].(*Opaque)
		key := m.concStr(a[1], "form file key")
		ft := ptrTo(m.namedType("mime/multipart", "sectionReadCloser"))
		if !ok || o.Kind != "multipartform" {
			return Tuple{Iface{}, Ptr(nil), m.errorValue("http: no such file")}
		}
		f := o.X.(*multipartModel).files[key]
		if f == nil {
			return Tuple{Iface{}, Ptr(nil), m.errorValue("http: no such file")}
		}
		ht := m.namedType("mime/multipart", "FileHeader")
		h := newCell(zero(ht))
		m.setField(h, ht, "Filename", f.name)
		// every FormFile call opens the part anew
		nf := &fileModel{name: f.name, content: f.content, spilled: f.spilled}
		m.native[fmt.Sprintf("file%d", len(m.native))] = nf
		return Tuple{Iface{T: ft, V: newCell(&Opaque{Kind: "file", X: nf})}, h, Iface{}}
	})
}

func sortStrings(s []string) {
	for i := 1; i < len(s); i++ {
		for j := i; j > 0 && s[j] < s[j-1]; j-- {
			s[j], s[j-1] = s[j-1], s[j]
		}
	}
}


// bodyIsInMemory: the body types for which net/http.NewRequest sets ContentLength and GetBody
// (*bytes.Buffer, *bytes.Reader, *strings.Reader: the readers backed by the engine's buffer model)
func (m *Machine) bodyIsInMemory(body Value) bool {
	bi, ok := body.(Iface)
	if !ok || bi.T == nil {
		return false
	}
	p, ok := bi.V.(Ptr)
	if !ok || p == nil {
		return false
	}
	_, isBuf := m.bufs[p]
	return isBuf
}
