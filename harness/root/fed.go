package pebbles

import (
	"encoding/json"
	"fmt"
	"io"
	"net/http"
	"sort"
	"strings"
	"sync"

	"github.com/buildbuildio/pebbles/planner"
	"github.com/buildbuildio/pebbles/queryer"
	"github.com/buildbuildio/pebbles/requests"
	"github.com/vektah/gqlparser/v2"
	"github.com/vektah/gqlparser/v2/ast"
)

// Shared harness for the gateway-level kernels: a federation of fake services that EVALUATE the
// sub-requests they receive (parsed and validated with the real gqlparser against the service's own
// schema) over a small world, and a reference evaluator of the client operation on the merged
// schema over the same world. Runs under the symbolic executor and natively.

type vRef struct{ typ, id string }
type vEnt map[string]interface{} // field -> scalar / vRef / []vRef / nil; missing field = derived token

type vWorld struct {
	ents  map[string]vEnt
	roots map[string]interface{} // "Query.field" -> vRef / []vRef / scalar
}

type vSub struct {
	url   string
	query string
	vars  map[string]interface{}
	opn   string
}

type vSvc struct {
	url    string
	schema *ast.Schema
	w      *vWorld
	f      *vFed
	fault  func(s *vSvc, call int, in []*requests.Request) ([]map[string]interface{}, error, bool)
	calls  int
	dead   bool
}

type vFed struct {
	gw     *Gateway
	svcs   []*vSvc
	w      *vWorld
	log    []vSub // every sub-request, in arrival order
	batch  []int  // size of every downstream call, in arrival order
	burl   []string
	broken string // first invalid sub-request seen by a service
}

func (s *vSvc) URL() string { return s.url }
func (s *vSvc) Subscribe(*requests.Request, <-chan struct{}, chan *requests.Response) error {
	return nil
}

func vOpRoot(op *ast.OperationDefinition) string {
	switch op.Operation {
	case ast.Mutation:
		return "Mutation"
	case ast.Subscription:
		return "Subscription"
	}
	return "Query"
}

func vVarsFor(op *ast.OperationDefinition, given map[string]interface{}) map[string]interface{} {
	vars := map[string]interface{}{}
	for _, vd := range op.VariableDefinitions {
		if v, ok := given[vd.Variable]; ok {
			vars[vd.Variable] = v
		} else if vd.DefaultValue != nil {
			dv, _ := vd.DefaultValue.Value(nil)
			if vd.DefaultValue.Kind == ast.ListValue && len(vd.DefaultValue.Children) == 0 {
				dv = []interface{}{} // an empty list is a value of its own, not null
			}
			vars[vd.Variable] = dv
		}
	}
	return vars
}

// the fake services are one linearisable server model: concurrent calls are served one at a time
var vSvcMu sync.Mutex

func (s *vSvc) Query(in []*requests.Request) ([]map[string]interface{}, error) {
	vSvcMu.Lock()
	defer vSvcMu.Unlock()
	if s.dead {
		s.f.log = append(s.f.log, vSub{url: s.url})
		return nil, fmt.Errorf("no service at %s", s.url)
	}
	call := s.calls
	s.calls++
	s.f.batch = append(s.f.batch, len(in))
	s.f.burl = append(s.f.burl, s.url)
	out := make([]map[string]interface{}, len(in))
	for i, r := range in {
		opn := ""
		if r.OperationName != nil {
			opn = *r.OperationName
		}
		s.f.log = append(s.f.log, vSub{s.url, r.Query, r.Variables, opn})
		doc, err := gqlparser.LoadQuery(s.schema, r.Query)
		if err != nil {
			if s.f.broken == "" {
				s.f.broken = s.url + ": " + r.Query + ": " + err.Error()
			}
			return nil, fmt.Errorf("service %s rejects sub-request: %v", s.url, err)
		}
		op := doc.Operations[0]
		if r.OperationName != nil {
			op = doc.Operations.ForName(*r.OperationName)
			if op == nil {
				if s.f.broken == "" {
					s.f.broken = s.url + ": unknown operation name " + opn
				}
				return nil, fmt.Errorf("service %s: unknown operation %s", s.url, opn)
			}
		}
		out[i] = vEval(s.schema, s.w, op.SelectionSet, vOpRoot(op), nil, vVarsFor(op, r.Variables))
	}
	if s.fault != nil {
		if o, e, hit := s.fault(s, call, in); hit {
			return o, e
		}
	}
	return out, nil
}

func vArgStr(f *ast.Field, vars map[string]interface{}) string {
	if len(f.Arguments) == 0 {
		return ""
	}
	m := f.ArgumentMap(vars)
	keys := make([]string, 0, len(m))
	for k := range m {
		keys = append(keys, k)
	}
	sort.Strings(keys)
	s := ""
	for _, k := range keys {
		s += fmt.Sprintf("%s=%v;", k, m[k])
	}
	return s
}

func vSkip(dl ast.DirectiveList, vars map[string]interface{}) bool {
	for _, d := range dl {
		if d.Name == "skip" || d.Name == "include" {
			v, _ := d.Arguments.ForName("if").Value.Value(vars)
			b, _ := v.(bool)
			if (d.Name == "skip" && b) || (d.Name == "include" && !b) {
				return true
			}
		}
	}
	return false
}

func vTypeMatches(sc *ast.Schema, cond, concrete string) bool {
	if cond == "" || cond == concrete {
		return true
	}
	for _, pt := range sc.PossibleTypes[cond] {
		if pt.Name == concrete {
			return true
		}
	}
	return false
}

// vEval evaluates a selection set on entity e (nil for a root object) whose concrete type is typ
func vEval(sc *ast.Schema, w *vWorld, ss ast.SelectionSet, typ string, e vEnt, vars map[string]interface{}) map[string]interface{} {
	res := map[string]interface{}{}
	vWalk(sc, w, ss, typ, e, vars, res)
	return res
}

// vRootRef is a field that hands out a root object again (a payload's "query: Query")
type vRootRef string

func vConv(sc *ast.Schema, w *vWorld, s *ast.Field, v interface{}, vars map[string]interface{}) interface{} {
	switch v := v.(type) {
	case vRootRef:
		return vEval(sc, w, s.SelectionSet, string(v), nil, vars)
	case vRef:
		return vEval(sc, w, s.SelectionSet, v.typ, w.ents[v.id], vars)
	case []vRef:
		l := make([]interface{}, len(v))
		for i, r := range v {
			l[i] = vConv(sc, w, s, r, vars)
		}
		return l
	case []interface{}:
		l := make([]interface{}, len(v))
		for i, r := range v {
			l[i] = vConv(sc, w, s, r, vars)
		}
		return l
	}
	return v
}

func vMergeInto(dst, src map[string]interface{}) {
	for k, v := range src {
		if dm, ok := dst[k].(map[string]interface{}); ok {
			if sm, ok := v.(map[string]interface{}); ok {
				vMergeInto(dm, sm)
				continue
			}
		}
		if dl, ok := dst[k].([]interface{}); ok {
			if sl, ok := v.([]interface{}); ok && len(sl) == len(dl) {
				for i := range dl {
					dm, ok1 := dl[i].(map[string]interface{})
					sm, ok2 := sl[i].(map[string]interface{})
					if ok1 && ok2 {
						vMergeInto(dm, sm)
					}
				}
				continue
			}
		}
		dst[k] = v
	}
}

func vWalk(sc *ast.Schema, w *vWorld, ss ast.SelectionSet, typ string, e vEnt, vars map[string]interface{}, res map[string]interface{}) {
	for _, sel := range ss {
		switch s := sel.(type) {
		case *ast.Field:
			if vSkip(s.Directives, vars) {
				continue
			}
			key := s.Alias
			if key == "" {
				key = s.Name
			}
			if s.Name == "__typename" {
				res[key] = typ
				continue
			}
			var raw interface{}
			var ok bool
			if e == nil {
				if s.Name == "node" {
					id, _ := s.ArgumentMap(vars)["id"].(string)
					raw, ok = nil, true
					if en, has := w.ents[id]; has {
						tn := en["__typename"].(string)
						if _, known := sc.Types[tn]; known {
							raw = vRef{tn, id}
						}
					}
				} else {
					raw, ok = w.roots[typ+"."+s.Name]
				}
			} else {
				raw, ok = e[s.Name]
			}
			if ok {
				if e == nil {
					raw = vLookup(w, w.roots, typ+"."+s.Name, raw)
				} else {
					raw = vLookup(w, e, s.Name, raw)
				}
			}
			if !ok {
				id := "root"
				if e != nil {
					id, _ = e["id"].(string)
				}
				if s.Name == "id" {
					raw = id
				} else {
					raw = fmt.Sprintf("%s.%s(%s)", id, s.Name, vArgStr(s, vars))
				}
			}
			nv := vConv(sc, w, s, raw, vars)
			if pm, isMap := res[key].(map[string]interface{}); isMap {
				if nm, isMap2 := nv.(map[string]interface{}); isMap2 {
					vMergeInto(pm, nm)
					continue
				}
			}
			if pl, isList := res[key].([]interface{}); isList {
				if nl, isList2 := nv.([]interface{}); isList2 && len(nl) == len(pl) {
					vMergeInto(map[string]interface{}{"x": pl}, map[string]interface{}{"x": nl})
					continue
				}
			}
			res[key] = nv
		case *ast.InlineFragment:
			if vSkip(s.Directives, vars) || !vTypeMatches(sc, s.TypeCondition, typ) {
				continue
			}
			vWalk(sc, w, s.SelectionSet, typ, e, vars, res)
		case *ast.FragmentSpread:
			if vSkip(s.Directives, vars) || !vTypeMatches(sc, s.Definition.TypeCondition, typ) {
				continue
			}
			vWalk(sc, w, s.Definition.SelectionSet, typ, e, vars, res)
		}
	}
}

type vFixedIntrospector struct{ res []*ast.Schema }

func (f vFixedIntrospector) IntrospectRemoteSchemas(urls ...string) ([]*ast.Schema, error) {
	return f.res, nil
}

func (f *vFed) svcByURL(url string) *vSvc {
	for _, s := range f.svcs {
		if s.url == url {
			return s
		}
	}
	return nil
}

func vMustSchema(sdl string) *ast.Schema {
	sc, err := gqlparser.LoadSchema(&ast.Source{Name: "svc", Input: sdl})
	if err != nil {
		panic("harness: scenario schema does not load: " + err.Error())
	}
	return sc
}

func vNewFed(w *vWorld, opts []GatewayOption, sdls ...string) *vFed {
	return vNewFedWith(w, opts, true, sdls...)
}

// vNewFedOpts builds the federation but leaves the queryer factory to the caller's options
func vNewFedOpts(w *vWorld, opts []GatewayOption, sdls ...string) *vFed {
	return vNewFedWith(w, opts, false, sdls...)
}

func vNewFedWith(w *vWorld, opts []GatewayOption, direct bool, sdls ...string) *vFed {
	f := &vFed{w: w}
	var urls []string
	var schemas []*ast.Schema
	for i, sdl := range sdls {
		sc, err := gqlparser.LoadSchema(&ast.Source{Name: "svc", Input: sdl})
		if err != nil {
			panic("harness: scenario schema does not load: " + err.Error())
		}
		s := &vSvc{url: "svc" + string(rune('0'+i)), schema: sc, w: w, f: f}
		f.svcs = append(f.svcs, s)
		urls = append(urls, s.url)
		schemas = append(schemas, sc)
	}
	opts = append(opts, WithRemoteSchemaIntrospector(vFixedIntrospector{schemas}))
	if direct {
		opts = append(opts, WithQueryerFactory(func(_ *planner.PlanningContext, url string) queryer.Queryer {
			for _, s := range f.svcs {
				if s.url == url {
					return s
				}
			}
			// no such service: what the default factory would build is an HTTP client for a URL nobody serves
			return &vSvc{url: url, schema: schemas[0], w: w, f: f, dead: true}
		}))
	}
	gw, err := NewGateway(urls, opts...)
	if err != nil {
		panic("harness: scenario schemas do not merge: " + err.Error())
	}
	f.gw = gw
	return f
}

// ---- HTTP seam ----

type vBody struct {
	data []byte
}

func (b *vBody) Read(p []byte) (int, error) {
	if len(b.data) == 0 {
		return 0, io.EOF
	}
	n := copy(p, b.data)
	b.data = b.data[n:]
	return n, nil
}
func (b *vBody) Close() error { return nil }

// verifGetBodyMaker: what net/http.NewRequest installs as Request.GetBody for an in-memory body
func verifGetBodyMaker(b []byte) func() (io.ReadCloser, error) {
	return func() (io.ReadCloser, error) { return &vBody{append([]byte{}, b...)}, nil }
}

type vRecorder struct {
	hdr    http.Header
	code   int
	body   []byte
	writes int
}

func (r *vRecorder) Header() http.Header {
	if r.hdr == nil {
		r.hdr = http.Header{}
	}
	return r.hdr
}
func (r *vRecorder) Write(b []byte) (int, error) {
	r.writes++
	r.body = append(r.body, b...)
	return len(b), nil
}
func (r *vRecorder) WriteHeader(c int) { r.code = c }

func vPostRaw(gw *Gateway, contentType string, body []byte) *vRecorder {
	rec := &vRecorder{}
	req := &http.Request{Method: http.MethodPost, Header: http.Header{}, Body: &vBody{body}}
	if contentType != "" {
		req.Header.Set("Content-Type", contentType)
	}
	gw.Handler(rec, req)
	return rec
}

// vPost sends one operation and returns the decoded response document
func (f *vFed) vPost(query string, vars map[string]interface{}, opName string) (int, map[string]interface{}) {
	m := map[string]interface{}{"query": query}
	if vars != nil {
		m["variables"] = vars
	}
	if opName != "" {
		m["operationName"] = opName
	}
	body, _ := json.Marshal(m)
	rec := vPostRaw(f.gw, "application/json", body)
	var out map[string]interface{}
	if err := json.Unmarshal(rec.body, &out); err != nil {
		verifAssert(false, "the response body is one JSON object")
	}
	return rec.code, out
}

// vReference evaluates the client operation on the merged schema over the whole world
func (f *vFed) vReference(query string, vars map[string]interface{}, opName string) (map[string]interface{}, bool) {
	doc, err := gqlparser.LoadQuery(f.gw.schema, query)
	if err != nil {
		return nil, false
	}
	var op *ast.OperationDefinition
	if opName != "" {
		op = doc.Operations.ForName(opName)
	} else if len(doc.Operations) == 1 {
		op = doc.Operations[0]
	}
	if op == nil {
		return nil, false
	}
	data := vEval(f.gw.schema, f.w, op.SelectionSet, vOpRoot(op), nil, vVarsFor(op, vars))
	// normalise through the JSON codec so that both sides have the same number representation
	b, _ := json.Marshal(data)
	var out map[string]interface{}
	json.Unmarshal(b, &out)
	vPrune(out)
	return out, true
}

// vAssertSame asserts deep equality of two decoded JSON values, leaf by leaf
func vAssertSame(path string, got, exp interface{}) {
	switch e := exp.(type) {
	case map[string]interface{}:
		g, ok := got.(map[string]interface{})
		verifAssert(ok, "data"+path+": object expected")
		if !ok {
			return
		}
		for k, ev := range e {
			gv, has := g[k]
			verifAssert(has, "data"+path+"."+k+": requested field is present")
			if has {
				vAssertSame(path+"."+k, gv, ev)
			}
		}
		for k := range g {
			_, has := e[k]
			verifAssert(has, "data"+path+"."+k+": nothing the client did not ask for appears")
		}
	case []interface{}:
		g, ok := got.([]interface{})
		verifAssert(ok && len(g) == len(e), "data"+path+": list of the same length expected")
		if !ok || len(g) != len(e) {
			return
		}
		for i := range e {
			vAssertSame(path+"[]", g[i], e[i])
		}
	case nil:
		verifAssert(got == nil, "data"+path+": null expected")
	case string:
		g, ok := got.(string)
		verifAssert(ok && g == e, "data"+path+": same string value")
	case float64:
		g, ok := got.(float64)
		verifAssert(ok && g == e, "data"+path+": same number value")
	case int:
		g, ok := got.(int)
		verifAssert(ok && g == e, "data"+path+": same integer value")
	case bool:
		g, ok := got.(bool)
		verifAssert(ok && g == e, "data"+path+": same boolean value")
	default:
		verifAssert(false, "data"+path+": unexpected reference value")
	}
}

// vPrune applies the gateway's documented (unit-tested) pruning to a decoded value: a field whose
// value is an empty object, or a non-empty list consisting of empty objects only, is dropped.
func vPrune(v interface{}) (interface{}, bool) {
	switch x := v.(type) {
	case map[string]interface{}:
		for k, e := range x {
			ne, empty := vPrune(e)
			if empty {
				delete(x, k)
			} else {
				x[k] = ne
			}
		}
		return x, len(x) == 0
	case []interface{}:
		if len(x) == 0 {
			return x, false
		}
		all := true
		for i, e := range x {
			ne, empty := vPrune(e)
			x[i] = ne
			if _, isObj := ne.(map[string]interface{}); !isObj || !empty {
				all = false
			}
		}
		return x, all
	}
	return v, false
}

func vNorm(q string) string { return strings.Join(strings.Fields(q), " ") }
