package pebbles

import (
	"encoding/json"

	"github.com/buildbuildio/pebbles/planner"
)

// C14 through the gateway: a history of requests on ONE gateway with the caching planner; every answer
// is compared with the single-server reference for that request (what the plain planner yields is the
// subject of C01). The pool has documents that share their text and differ in operationName, that share
// a selection and differ in operation type, and pairs that only differ by a helper field.

func vCachePool() []vOp {
	two := `query A { me { name } } query B { me { phone } }`
	return []vOp{
		{q: two, opName: "A"},
		{q: two, opName: "B"},
		{q: `query A { me { phone } }`, opName: "A"},
		{q: `{ me { name phone } }`},
		{q: `{ me { id name phone } }`},
		{q: `mutation { saveHuman(name: "x") { name phone } }`},
		// the same named fragment spread under different directives
		{q: `{ me { id ...F @skip(if: true) } } fragment F on Human { name phone }`},
		{q: `{ me { id ...F @skip(if: false) } } fragment F on Human { name phone }`},
		{q: `{ me { id ...F } } fragment F on Human { name phone }`},
		// one spread name, different fragment bodies; one selection, different variable declarations
		{q: `{ me { ...F } } fragment F on Human { name }`},
		{q: `{ me { ...F } } fragment F on Human { phone }`},
		{q: `query($c: Int = 5) { me { phone(cc: $c) } }`},
		// one operation in two layouts, failing at execution (a null for a non-null field on the way to
		// another service's step): whatever the error says must come from this request
		{q: `{ must { name phone } }`, fails: true},
		{q: "{\n  must {\n    name\n    phone\n  }\n}", fails: true},
		// one spread name and body, on different types
		{q: `query($id: ID!) { node(id: $id) { ...F } } fragment F on Human { name }`, vars: func() map[string]interface{} {
			return map[string]interface{}{"id": []string{"h1", "r1"}[verifChoice("var_id", 2)]}
		}},
		{q: `query($id: ID!) { node(id: $id) { ...F } } fragment F on Robot { name }`, vars: func() map[string]interface{} {
			return map[string]interface{}{"id": []string{"h1", "r1"}[verifChoice("var_id", 2)]}
		}},
		// one selection text, different declared types of a variable that sits inside a custom scalar value
		{q: `query($v: Int) { me { tag(meta: {a: $v}) phone } }`, vars: func() map[string]interface{} { return map[string]interface{}{"v": 3} }},
		{q: `query($v: String) { me { tag(meta: {a: $v}) phone } }`, vars: func() map[string]interface{} { return map[string]interface{}{"v": "three"} }},
		{q: `query($c: Int) { me { phone(cc: $c) } }`, vars: func() map[string]interface{} {
			return map[string]interface{}{"c": verifInt("var_c", 0, 9)}
		}},
	}
}

// vMixedPool: operations that select introspection fields next to ordinary ones (the gateway then splits
// the root steps of the plan, which the cache may hand out again)
func vMixedPool() []vOp {
	return []vOp{
		{q: `{ __schema { queryType { name } } me { name phone } }`},
		{q: `mutation { __typename saveHuman(name: "x") { name } }`},
		{q: `{ me { name } }`},
		// what GraphiQL sends: the sub-selection of an introspection field goes through a named fragment
		{q: `{ __schema { queryType { ...T } } me { name } } fragment T on __Type { name kind }`},
		{q: `{ __type(name: "Human") { ...T } __type(name: "Human") { kind } } fragment T on __Type { name }`},
	}
}

var vIntroSeen = map[string]string{}

func VerifCacheGateway() {
	vK = 1
	vMinLen = 1
	pool := vCachePool()
	if verifParam("mixedpool", 0) == 1 {
		pool = vMixedPool()
	}
	f := vNewFed(vReadmeWorld(1), []GatewayOption{WithPlanner(planner.NewCachedPlanner(1000000000))}, vSA, vSB, vSC)
	n := verifParam("hmax", 2)
	for r := 0; r < n; r++ {
		op := pool[verifChoice("op"+verifItoa(r), len(pool))]
		verifLog("op: " + op.q + " [" + op.opName + "]")
		var vars map[string]interface{}
		if op.vars != nil {
			vars = op.vars()
		}
		f.log = nil
		code, out := f.vPost(op.q, vars, op.opName)
		if op.fails {
			// compared with what a gateway with the plain planner answers to the same request
			plain := vNewFed(vReadmeWorld(1), nil, vSA, vSB, vSC)
			_, pout := plain.vPost(op.q, vars, op.opName)
			a, _ := json.Marshal(out)
			b, _ := json.Marshal(pout)
			verifAssert(out["errors"] != nil, "a null for a non-null field is reported")
			verifAssert(string(a) == string(b), "a failing operation is answered as the plain planner's gateway answers it")
			continue
		}
		exp, valid := f.vReference(op.q, vars, op.opName)
		verifAssert(valid, "pool operation is valid against the gateway schema")
		verifAssert(code == 200, "status 200")
		verifAssert(out["errors"] == nil, "errors is empty for a valid operation on healthy services, whatever was planned before")
		verifAssert(f.broken == "", "every sub-request is valid for the service it is sent to")
		data, _ := out["data"].(map[string]interface{})
		verifAssert(data != nil, "data is present")
		if data != nil {
			for k := range exp {
				if len(k) > 2 && k[:2] == "__" && k != "__typename" {
					verifAssert(data[k] != nil, "introspection fields next to ordinary fields are answered: "+k)
					// what they say is C16's subject; that a repeated request is answered like the first is this one's
					if b, err := json.Marshal(data[k]); err == nil {
						key := op.q + "|" + op.opName + "|" + k
						if first, seen := vIntroSeen[key]; seen {
							verifAssert(first == string(b), "an introspection field is answered the same way every time: "+k)
						} else {
							vIntroSeen[key] = string(b)
						}
						verifAssert(string(b) != "{}", "an introspection field with a selection is not answered with an empty object: "+k)
					}
					delete(exp, k)
					delete(data, k)
				}
			}
			vPrune(data)
			vAssertSame("", data, exp)
		}
	}
	verifReach("history through the gateway")
}
