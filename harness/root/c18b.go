package pebbles

import (
	"context"
	"net/http"
)

// C18, a sub-request in flight: a subscription whose events are completed from another service; that
// service does not answer while the client goes away. The gateway is built with its DEFAULT queryer
// factory, whose HTTP calls carry the context of the upgrade request: net/http cancels it when the
// handler returns, which is what frees the goroutine that waits for the answer. Nothing may be left
// behind: no goroutine, no upstream connection.
func VerifTeardownStalled() {
	vMaxTicks = 0
	f := vNewFedOpts(vSubWorld(), []GatewayOption{WithMerger(vQuickMerger{})}, vSubA, vSubB)
	vHTTPFed = f
	client := vNewConn("client")
	vWs = &vWsWorld{client: client}
	vWs.upScript = func(up *vConn, n int) {
		if !up.vSend(vServerData("1", map[string]interface{}{"humanChanged": map[string]interface{}{"id": "h1", "name": "n0"}})) {
			return
		}
		<-up.closeCh
	}
	stalled := make(chan struct{})
	reached := false
	vStallFn = func(req *http.Request) (*http.Response, error, bool) {
		if !reached {
			reached = true
			close(stalled)
		}
		// the service never answers: the call ends when its context does
		<-req.Context().Done()
		return nil, req.Context().Err(), true
	}
	ctx, cancel := context.WithCancel(context.Background())
	how := verifChoice("client-leaves", 2)
	go func() {
		if !client.vSend(vClientMsg("connection_init", "", "")) {
			return
		}
		if !client.vSend(vClientMsg("start", "s1", `subscription { humanChanged { name phone } }`)) {
			return
		}
		<-stalled
		if how == 1 {
			if !client.vSend(vClientMsg("connection_terminate", "", "")) {
				return
			}
		}
		close(client.in)
	}()
	f.gw.Handler(&vRecorder{}, vWsRequest().WithContext(ctx))
	// what net/http does when a handler returns
	cancel()
	verifAssert(reached, "the event was being completed when the client left")
	verifReach("handler returned with a sub-request in flight")
}
