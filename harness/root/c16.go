package pebbles

import (
	"github.com/buildbuildio/pebbles/planner"
	"github.com/buildbuildio/pebbles/merger"
	"encoding/json"
	"sort"

	"github.com/buildbuildio/pebbles/introspection"
	"github.com/buildbuildio/pebbles/queryer"
	"github.com/buildbuildio/pebbles/requests"
	"github.com/vektah/gqlparser/v2/ast"
)

// C16: what the gateway reports about its schema is the schema it enforces.

const vS16A = `
interface Node { id: ID! }
interface Pet { id: ID! name: String! }
type Cat implements Node & Pet { id: ID! name: String! old: Int @deprecated(reason: "gone") lives(min: Int = 1): Int twin: Cat }
type Dog implements Node & Pet { id: ID! name: String! bark: [String!]! }
union Thing = Cat | Dog
enum Mood { HAPPY GRUMPY @deprecated }
input Filter { mood: Mood = HAPPY limit: Int = 10 tags: [String!] }
interface Lonely { id: ID! }
type Legacy { was: Int @deprecated(reason: "all of it") }
type Query { node(id: ID!): Node pets(filter: Filter = {limit: 3, tags: ["a"]}, limit: Int = null): [Pet!]! things: [Thing!]! lonely: Lonely tom: Cat legacy: Legacy }
`
const vS16B = `
interface Node { id: ID! }
type Cat implements Node { id: ID! toy: String }
scalar Date
scalar JSON
type Query { node(id: ID!): Node today: Date search(meta: JSON = 70): String }
type Mutation { adopt(id: ID!): Cat }
`

const vS16R1 = `
interface Node { id: ID! }
type Cat implements Node { id: ID! name: String! }
type Query { node(id: ID!): Node }
`
const vS16R2 = `
interface Node { id: ID! }
type Cat implements Node { id: ID! toy: String }
type Query { node(id: ID!): Node }
`

const vTypeSel = `kind name description
  fields(includeDeprecated: true) { name args { name defaultValue type { ...TR } } type { ...TR } isDeprecated deprecationReason }
  inputFields { name defaultValue type { ...TR } }
  interfaces { ...TR }
  enumValues(includeDeprecated: true) { name isDeprecated }
  possibleTypes { ...TR }`
const vTRFrag = ` fragment TR on __Type { kind name ofType { kind name ofType { kind name ofType { kind name ofType { kind name } } } } }`

func vTypeRefString(v interface{}) string {
	m, _ := v.(map[string]interface{})
	if m == nil {
		return "?"
	}
	switch m["kind"] {
	case "NON_NULL":
		return vTypeRefString(m["ofType"]) + "!"
	case "LIST":
		return "[" + vTypeRefString(m["ofType"]) + "]"
	}
	s, _ := m["name"].(string)
	return s
}

type v16Queryer struct{ gw *Gateway }

func (q *v16Queryer) URL() string { return "gw" }
func (q *v16Queryer) Subscribe(*requests.Request, <-chan struct{}, chan *requests.Response) error {
	return nil
}

// Query makes this gateway look like a service to another gateway's introspector
func (q *v16Queryer) Query(in []*requests.Request) ([]map[string]interface{}, error) {
	out := make([]map[string]interface{}, len(in))
	for i, r := range in {
		m := map[string]interface{}{"query": r.Query}
		if r.OperationName != nil {
			m["operationName"] = *r.OperationName
		}
		b, _ := json.Marshal(m)
		rec := vPostRaw(q.gw, "application/json", b)
		var res map[string]interface{}
		json.Unmarshal(rec.body, &res)
		d, _ := res["data"].(map[string]interface{})
		out[i] = d
	}
	return out, nil
}

func vNames(l interface{}) []string {
	var out []string
	arr, _ := l.([]interface{})
	for _, e := range arr {
		if m, ok := e.(map[string]interface{}); ok {
			if s, ok := m["name"].(string); ok {
				out = append(out, s)
			}
		}
	}
	sort.Strings(out)
	return out
}

func vFind(l interface{}, name string) map[string]interface{} {
	arr, _ := l.([]interface{})
	for _, e := range arr {
		if m, ok := e.(map[string]interface{}); ok && m["name"] == name {
			return m
		}
	}
	return nil
}

func VerifIntrospectionAnswers() {
	vK = 1
	f := vNewFed(&vWorld{ents: map[string]vEnt{}, roots: map[string]interface{}{}}, nil, vS16A, vS16B)
	sc := f.gw.schema
	names := []string{"Cat", "Pet", "Thing", "Mood", "Filter", "Date", "Query", "Mutation", "Node"}
	tn := names[verifChoice("type", len(names))]
	verifLog("type: " + tn)
	byVar := verifChoice("byvariable", 2) == 1
	// the null-ness the specification prescribes per kind is judged on separate paths, so that the
	// recorded finding about it does not hide anything else
	shape := verifChoice("section", 2) == 1

	// __schema.types entry vs __type(name:)
	_, all := f.vPost(`{ __schema { types { `+vTypeSel+` } } }`+vTRFrag, nil, "")
	var one map[string]interface{}
	if byVar {
		_, one = f.vPost(`query($n: String!) { __type(name: $n) { `+vTypeSel+` } }`+vTRFrag, map[string]interface{}{"n": tn}, "")
	} else {
		_, one = f.vPost(`{ __type(name: "`+tn+`") { `+vTypeSel+` } }`+vTRFrag, nil, "")
	}
	verifAssert(all["errors"] == nil && one["errors"] == nil, "introspection operations are answered without errors")
	ad, _ := all["data"].(map[string]interface{})
	od, _ := one["data"].(map[string]interface{})
	verifAssert(ad != nil && od != nil, "introspection operations are answered with data")
	schemaNode, _ := ad["__schema"].(map[string]interface{})
	entry := vFind(schemaNode["types"], tn)
	verifAssert(entry != nil, "every type validation accepts is reported in __schema.types")
	typ, _ := od["__type"].(map[string]interface{})
	verifAssert(typ != nil, "__type(name:) finds every type of the schema")
	if entry == nil || typ == nil {
		return
	}
	vAssertSame(".__type", typ, entry)

	// the entry describes the schema used for validation, in the shape the specification prescribes
	def := sc.Types[tn]
	verifAssert(entry["kind"] == string(def.Kind), "kind")
	isObj := def.Kind == ast.Object || def.Kind == ast.Interface
	if shape {
		if !isObj {
			verifAssert(entry["fields"] == nil, "fields is null for types that are neither objects nor interfaces")
		}
		if def.Kind != ast.InputObject {
			verifAssert(entry["inputFields"] == nil, "inputFields is null for types that are not input objects")
		}
		if def.Kind != ast.Enum {
			verifAssert(entry["enumValues"] == nil, "enumValues is null for types that are not enums")
		}
		if def.Kind != ast.Interface && def.Kind != ast.Union {
			verifAssert(entry["possibleTypes"] == nil, "possibleTypes is null for types that are neither interfaces nor unions")
		}
		verifReach("shape checked")
		return
	}
	if isObj {
		var want []string
		for _, fd := range def.Fields {
			if len(fd.Name) < 2 || fd.Name[:2] != "__" {
				want = append(want, fd.Name)
			}
		}
		sort.Strings(want)
		got := vNames(entry["fields"])
		verifAssert(len(got) == len(want), "every field is reported and nothing else")
		for i := range want {
			if i < len(got) {
				verifAssert(got[i] == want[i], "every field is reported and nothing else")
			}
		}
		for _, fd := range def.Fields {
			fe := vFind(entry["fields"], fd.Name)
			if fe == nil {
				continue
			}
			verifAssert(vTypeRefString(fe["type"]) == fd.Type.String(), "field types are reported with all their wrappers")
			for _, a := range fd.Arguments {
				ae := vFind(fe["args"], a.Name)
				verifAssert(ae != nil && vTypeRefString(ae["type"]) == a.Type.String(), "arguments are reported with their types")
				if ae != nil && a.DefaultValue != nil {
					verifAssert(ae["defaultValue"] == a.DefaultValue.String(), "argument defaults are reported")
				}
			}
			dep := fd.Directives.ForName("deprecated") != nil
			verifAssert(fe["isDeprecated"] == dep, "deprecations are reported")
		}
	}
	if def.Kind == ast.Interface || def.Kind == ast.Union {
		var want []string
		for _, pt := range sc.PossibleTypes[tn] {
			want = append(want, pt.Name)
		}
		sort.Strings(want)
		got := vNames(entry["possibleTypes"])
		verifAssert(len(got) == len(want), "every possible type of an interface or union is reported")
		verifReach("abstract type")
	}
	if def.Kind == ast.InputObject {
		for _, fd := range def.Fields {
			fe := vFind(entry["inputFields"], fd.Name)
			verifAssert(fe != nil && vTypeRefString(fe["type"]) == fd.Type.String(), "input fields are reported with their types")
			if fe != nil && fd.DefaultValue != nil {
				verifAssert(fe["defaultValue"] == fd.DefaultValue.String(), "input field defaults are reported")
			}
		}
		verifReach("input object")
	}
	if def.Kind == ast.Enum {
		got := vNames(entry["enumValues"])
		verifAssert(len(got) == len(def.EnumValues), "every enum value is reported")
	}
	verifReach("type entry checked")
}

// VerifIntrospectionSiblings: the same member selected twice under aliases with different arguments
func VerifIntrospectionSiblings() {
	vK = 1
	f := vNewFed(&vWorld{ents: map[string]vEnt{}, roots: map[string]interface{}{}}, nil, vS16A, vS16B)
	order := verifChoice("order", 2)
	viaVar := verifChoice("viavariable", 2) == 1
	arg := "includeDeprecated: true"
	var vars map[string]interface{}
	hdr := ""
	if viaVar {
		arg = "includeDeprecated: $d"
		vars = map[string]interface{}{"d": true}
		hdr = "query($d: Boolean) "
	}
	sel := "all: fields(" + arg + ") { name } current: fields { name }"
	esel := "all: enumValues(" + arg + ") { name } current: enumValues { name }"
	if order == 1 {
		sel = "current: fields { name } all: fields(" + arg + ") { name }"
		esel = "current: enumValues { name } all: enumValues(" + arg + ") { name }"
	}
	_, out := f.vPost(hdr+`{ cat: __type(name: "Cat") { `+sel+` } mood: __type(name: "Mood") { `+esel+` } }`, vars, "")
	verifAssert(out["errors"] == nil, "the introspection operation is answered without errors")
	d, _ := out["data"].(map[string]interface{})
	cat, _ := d["cat"].(map[string]interface{})
	mood, _ := d["mood"].(map[string]interface{})
	verifAssert(cat != nil && mood != nil, "both types are found")
	if cat == nil || mood == nil {
		return
	}
	verifAssert(vFind(cat["all"], "old") != nil, "includeDeprecated: true lists deprecated fields")
	verifAssert(vFind(cat["current"], "old") == nil, "a selection without includeDeprecated hides deprecated fields, whatever its siblings ask for")
	verifAssert(vFind(cat["current"], "name") != nil, "current fields are listed")
	verifAssert(vFind(mood["all"], "GRUMPY") != nil, "includeDeprecated: true lists deprecated enum values")
	verifAssert(vFind(mood["current"], "GRUMPY") == nil, "a selection without includeDeprecated hides deprecated enum values, whatever its siblings ask for")
	verifReach("sibling selections checked")
}

// VerifIntrospectionHistory: one gateway answers a history of introspection requests that share their
// text and operation name and differ in their variable values only; every answer is judged on its own.
// Afterwards the schema still enforces what it enforced before (a required argument stays required).
func VerifIntrospectionHistory() {
	vK = 1
	// with the plain planner or the caching one (the selection text of every request is the same: what differs
	// are the variable values and, with declared defaults, the variable declarations)
	var opts []GatewayOption
	if verifChoice("planner", 2) == 1 {
		opts = append(opts, WithPlanner(planner.NewCachedPlanner(1000000000)))
	}
	f := vNewFed(&vWorld{ents: map[string]vEnt{}, roots: map[string]interface{}{}}, opts, vS16A, vS16B)
	sel := ` { __type(name: $n) { name fields(includeDeprecated: $d) { name type { kind name ofType { kind name } } } enumValues(includeDeprecated: $d) { name } } }`
	n := 1 + verifChoice("len", verifParam("hmax", 2))
	for r := 0; r < n; r++ {
		tn := []string{"Cat", "Mood", "Query"}[verifChoice("n"+verifItoa(r), 3)]
		d := verifChoice("d"+verifItoa(r), 2) == 1
		q := `query Q($n: String!, $d: Boolean)` + sel
		vars := map[string]interface{}{"n": tn, "d": d}
		switch verifChoice("declared"+verifItoa(r), 3) {
		case 1:
			// the value comes from the declaration's default instead
			q = `query Q($n: String!, $d: Boolean = ` + map[bool]string{true: "true", false: "false"}[d] + `)` + sel
			vars = map[string]interface{}{"n": tn}
		case 2:
			// neither a value nor a default: the argument is absent
			vars = map[string]interface{}{"n": tn}
			d = false
		}
		_, out := f.vPost(q, vars, "Q")
		verifAssert(out["errors"] == nil, "the introspection operation is answered without errors")
		data, _ := out["data"].(map[string]interface{})
		typ, _ := data["__type"].(map[string]interface{})
		verifAssert(typ != nil && typ["name"] == tn, "the answer describes the type this request asked for")
		if typ == nil {
			return
		}
		switch tn {
		case "Cat":
			verifAssert((vFind(typ["fields"], "old") != nil) == d, "deprecated fields are listed iff this request asked for them")
			verifAssert(vFind(typ["fields"], "name") != nil, "current fields are listed")
		case "Mood":
			verifAssert((vFind(typ["enumValues"], "GRUMPY") != nil) == d, "deprecated enum values are listed iff this request asked for them")
			verifAssert(vFind(typ["enumValues"], "HAPPY") != nil, "current enum values are listed")
		case "Query":
			nf := vFind(typ["fields"], "node")
			verifAssert(nf != nil, "root fields are listed")
			if nf != nil {
				verifAssert(vTypeRefString(nf["type"]) == "Node", "field types are reported as declared")
			}
		}
	}
	// the schema the gateway enforces is untouched by answering: `id` of node stays required
	_, bad := f.vPost(`{ node { id } }`, nil, "")
	verifAssert(bad["errors"] != nil, "a required argument is still required after introspection")
	verifReach("history answered")
}

// VerifIntrospectionRoundTrip: another gateway can rebuild an equivalent schema from the standard query
func VerifIntrospectionRoundTrip() {
	vK = 1
	// with the default merger, or with the one that hides the Relay entry point
	var opts []GatewayOption
	hidden := verifChoice("merger", 2) == 1
	if hidden {
		var m merger.SanitizeNodeMergerFunc
		opts = append(opts, WithMerger(m))
	}
	sdls := []string{vS16A, vS16B}
	if verifChoice("relayonly", 2) == 1 {
		// services that are reached through the Relay entry point only: Query has no field of its own
		sdls = []string{vS16R1, vS16R2}
		verifReach("services with nothing but node")
	}
	if hidden && len(sdls) == 2 && sdls[0] == vS16R1 {
		// nothing would be left of Query: the schema would not be a GraphQL schema (and no client could
		// rebuild it), so the gateway must not start
		var m merger.SanitizeNodeMergerFunc
		_, merr := m.Merge([]*merger.MergeInput{{Schema: vMustSchema(vS16R1), URL: "a"}, {Schema: vMustSchema(vS16R2), URL: "b"}})
		verifAssert(merr != nil, "hiding the only field of Query is refused at start-up")
		verifReach("empty query type refused")
		return
	}
	f := vNewFed(vAbstractWorld(), opts, sdls...)
	// the introspection entry points answer (the standard query below relies on them)
	for _, iq := range []string{`{ __typename }`, `{ __schema { queryType { name } } }`, `query($n: String!) { __type(name: $n) { name kind } }`} {
		_, ia := f.vPost(iq, map[string]interface{}{"n": "Cat"}, "")
		verifAssert(ia["errors"] == nil && ia["data"] != nil, "introspection operations are answered whatever the root type holds: "+iq)
	}
	if len(sdls) == 2 && sdls[0] == vS16A {
		// a type all of whose fields are deprecated still has a list of fields (an empty one unless asked)
		_, la := f.vPost(`{ __type(name: "Legacy") { kind fields { name } all: fields(includeDeprecated: true) { name } } }`, nil, "")
		ld, _ := la["data"].(map[string]interface{})
		lt, _ := ld["__type"].(map[string]interface{})
		lf, isList := lt["fields"].([]interface{})
		verifAssert(lt != nil && isList && len(lf) == 0, "fields of an object is a list, also when every field is deprecated and none is asked for")
		verifAssert(vFind(lt["all"], "was") != nil, "deprecated fields are listed on request")
	}
	q := &v16Queryer{gw: f.gw}
	intro := &introspection.ParallelRemoteSchemaIntrospector{Factory: func(string) queryer.Queryer { return q }}
	res, err := intro.IntrospectRemoteSchemas("gw")
	if err != nil {
		verifLog("introspection of the gateway failed: " + err.Error())
	}
	verifAssert(err == nil && len(res) == 1, "a second gateway can introspect this one")
	if err != nil || len(res) != 1 {
		return
	}
	got := res[0]
	for name, d := range f.gw.schema.Types {
		if len(name) > 1 && name[:2] == "__" {
			continue
		}
		g := got.Types[name]
		verifAssert(g != nil && g.Kind == d.Kind, "the rebuilt schema has every type with its kind: "+name)
		if g == nil {
			continue
		}
		for _, fd := range d.Fields {
			gf := g.Fields.ForName(fd.Name)
			verifAssert(gf != nil && gf.Type.String() == fd.Type.String(), "the rebuilt schema has every field with its type: "+name+"."+fd.Name)
			if gf == nil {
				continue
			}
			verifAssert((gf.DefaultValue != nil) == (fd.DefaultValue != nil), "the rebuilt schema has the input field defaults: "+name+"."+fd.Name)
			if gf.DefaultValue != nil && fd.DefaultValue != nil {
				verifAssert(gf.DefaultValue.String() == fd.DefaultValue.String(), "the rebuilt schema has the input field defaults: "+name+"."+fd.Name)
			}
			verifAssert((gf.Directives.ForName("deprecated") != nil) == (fd.Directives.ForName("deprecated") != nil), "the rebuilt schema has the deprecations: "+name+"."+fd.Name)
			verifAssert(len(gf.Arguments) == len(fd.Arguments), "the rebuilt schema has every argument: "+name+"."+fd.Name)
			for _, a := range fd.Arguments {
				ga := gf.Arguments.ForName(a.Name)
				verifAssert(ga != nil && ga.Type.String() == a.Type.String(), "the rebuilt schema has every argument with its type")
				if ga != nil {
					verifAssert((ga.DefaultValue != nil) == (a.DefaultValue != nil), "the rebuilt schema has the argument defaults: "+name+"."+fd.Name+"."+a.Name)
					if ga.DefaultValue != nil && a.DefaultValue != nil {
						verifAssert(ga.DefaultValue.String() == a.DefaultValue.String(), "the rebuilt schema has the argument defaults: "+name+"."+fd.Name+"."+a.Name)
					}
				}
			}
		}
		verifAssert(len(g.EnumValues) == len(d.EnumValues), "the rebuilt schema has every enum value: "+name)
		for _, ev := range d.EnumValues {
			gv := g.EnumValues.ForName(ev.Name)
			verifAssert(gv != nil && (gv.Directives.ForName("deprecated") != nil) == (ev.Directives.ForName("deprecated") != nil), "the rebuilt schema has the enum value deprecations: "+name+"."+ev.Name)
		}
		verifAssert(len(g.Interfaces) == len(d.Interfaces), "the rebuilt schema has the implements clauses: "+name)
		verifAssert(len(g.Types) == len(d.Types), "the rebuilt schema has the union members: "+name)
	}
	// reported if and only if accepted: root fields, probed with one operation each
	probes := [][2]string{
		{"node", `{ node(id: "c1") { ... on Cat { name } } }`},
		{"today", `{ today }`},
		{"pets", `{ pets { name } }`},
		{"ghost", `{ ghost }`},
	}
	for _, pr := range probes {
		reported := got.Types["Query"] != nil && got.Types["Query"].Fields.ForName(pr[0]) != nil
		_, ans := f.vPost(pr[1], nil, "")
		accepted := ans["errors"] == nil
		verifAssert(reported == accepted, "a root field is reported by introspection if and only if validation accepts it: "+pr[0])
	}
	verifAssert((got.Types["Query"].Fields.ForName("node") == nil) == hidden, "the node-hiding merger hides Query.node, the default merger shows it")
	verifReach("round trip")
}
