package pebbles

import (
	"encoding/json"

	"github.com/buildbuildio/pebbles/planner"

	"github.com/vektah/gqlparser/v2"
)

// C17: every event of every subscription reaches the client once, in order, under its own id, fully
// stitched (fields of other services fetched as for a query) and scrubbed; upstream errors arrive as errors.

type vSubScript struct {
	id     string
	query  string
	events []string // entity id of each event ("" = an error payload instead of an event)
	vars   map[string]interface{}
}

func vUpstreamStartQuery(up *vConn) string {
	// the second frame the gateway writes upstream is the start message carrying the root step's query
	for _, fr := range up.frames {
		var m map[string]interface{}
		if json.Unmarshal(fr, &m) == nil && m["type"] == "start" {
			p, _ := m["payload"].(map[string]interface{})
			q, _ := p["query"].(string)
			return q
		}
	}
	return ""
}

var vFragmentEvents bool

func VerifEvents() {
	vFragmentEvents = verifChoice("fragmented-events", 2) == 1
	var opts []GatewayOption
	cached := verifParam("cached", 0) == 1
	if cached {
		opts = append(opts, WithPlanner(planner.NewCachedPlanner(1000000000)))
	}
	f := vNewSubFed(vSubWorld(), opts)
	client := vNewConn("client")
	nsubs := 1 + verifChoice("subs", verifParam("maxsubs", 2))
	subs := make([]vSubScript, nsubs)
	for i := range subs {
		subs[i].id = "s" + verifItoa(i)
		// a client variable that only the other service's field uses: it is read when an event is stitched
		subs[i].query = `subscription($c: Int) { humanChanged { name phone(cc: $c) } }`
		subs[i].vars = map[string]interface{}{"c": 10 + i}
		if verifParam("stitch", 1) == 0 {
			subs[i].query, subs[i].vars = `subscription { humanChanged { name } }`, nil
		} else {
			switch verifChoice("query"+verifItoa(i), 6) {
			case 5:
				// two sibling objects on the fourth level, each completed by the other service
				subs[i].query, subs[i].vars = `subscription { humanChanged { meta { section { chief { phone } deputy { phone } } } } }`, nil
			case 4:
				// the field to complete is reached through a named fragment, two fields deep
				subs[i].query, subs[i].vars = `subscription { humanChanged { ...M } } fragment M on Human { name best { phone } }`, nil
			case 1:
				subs[i].query, subs[i].vars = `subscription { humanChanged { phone } }`, nil
			case 2:
				// the stitch point may be absent (best is null for h2): nothing to fetch, helpers still go
				subs[i].query, subs[i].vars = `subscription { humanChanged { name best { phone } } }`, nil
			case 3:
				// a list to complete behind three object fields
				subs[i].query, subs[i].vars = `subscription { humanChanged { meta { section { editors { phone } } } } }`, nil
			}
		}
		n := verifChoice("events"+verifItoa(i), verifParam("maxevents", 2)+1)
		for e := 0; e < n; e++ {
			switch verifChoice("ev"+verifItoa(i)+"_"+verifItoa(e), 4) {
			case 0:
				subs[i].events = append(subs[i].events, "h1")
			case 1:
				subs[i].events = append(subs[i].events, "h2")
			case 2:
				subs[i].events = append(subs[i].events, "")
			case 3:
				subs[i].events = append(subs[i].events, "partial:h1") // data next to errors
			}
		}
	}
	vWs = &vWsWorld{client: client}
	done := make(chan struct{}, 8)
	vWs.upScript = func(up *vConn, n int) {
		// wait for the gateway's init and start messages, then emit the scripted events of subscription n
		svc := f.svcs[0]
		for k := 0; k < 2; k++ {
			select {
			case <-up.wrote:
			case <-up.closeCh:
				done <- struct{}{}
				return
			}
		}
		for _, ev := range subs[n].events {
			if ev == "" {
				if !up.vSend([]byte(`{"type":"error","id":"1","payload":[{"message":"upstream error ` + subs[n].id + `"}]}`)) {
					return
				}
				continue
			}
			q := vUpstreamStartQuery(up)
			doc, err := gqlparser.LoadQuery(svc.schema, q)
			verifAssert(err == nil, "the subscription forwarded upstream is valid for the owning service")
			if err != nil {
				return
			}
			w := vSubWorld()
			partial := len(ev) > 8 && ev[:8] == "partial:"
			if partial {
				ev = ev[8:]
			}
			w.roots["Subscription.humanChanged"] = vRef{"Human", ev}
			data := vEval(svc.schema, w, doc.Operations[0].SelectionSet, "Subscription", nil, nil)
			msg := vServerData("1", data)
			if partial {
				msg, _ = json.Marshal(map[string]interface{}{"type": "data", "id": "1", "payload": map[string]interface{}{"data": data, "errors": []interface{}{map[string]interface{}{"message": "partial " + subs[n].id, "extensions": map[string]interface{}{"code": "E7"}, "path": []interface{}{"humanChanged", "age"}}}}})
			}
			if vFragmentEvents {
				// the owning service (or a proxy in front of it) splits the message into two frames
				if !up.vSendFragmented(msg) {
					return
				}
				continue
			}
			if !up.vSend(msg) {
				return
			}
		}
		up.vSend([]byte(`{"type":"complete","id":"1"}`))
		done <- struct{}{}
	}
	go func() {
		client.vSend(vClientMsg("connection_init", "", ""))
		for _, s := range subs {
			client.vSend(vClientMsgVars("start", s.id, s.query, s.vars))
		}
		// let every upstream finish its script, then leave
		for range subs {
			<-done
		}
		// ... and until the gateway has written the acknowledgement and one frame per event
		// (a lost event shows up as a deadlock here)
		total := 1
		for _, s := range subs {
			total += len(s.events)
		}
		for i := 0; i < total; i++ {
			<-client.wrote
		}
		close(client.in)
	}()
	vMaxTicks = 0
	f.gw.Handler(&vRecorder{}, vWsRequest())

	// what the client received, per subscription id
	got := map[string][]map[string]interface{}{}
	for _, fr := range client.frames {
		var m map[string]interface{}
		verifAssert(json.Unmarshal(fr, &m) == nil, "every frame is well-formed JSON")
		if m["type"] != "data" {
			continue
		}
		id, _ := m["id"].(string)
		p, _ := m["payload"].(map[string]interface{})
		got[id] = append(got[id], p)
	}
	for _, s := range subs {
		frames := got[s.id]
		verifAssert(len(frames) == len(s.events), "every event is delivered exactly once under its subscription id: "+s.id)
		for i, ev := range s.events {
			if i >= len(frames) {
				break
			}
			p := frames[i]
			if ev == "" {
				errs, _ := p["errors"].([]interface{})
				verifAssert(len(errs) > 0, "upstream errors are forwarded as errors")
				if len(errs) > 0 {
					e0, _ := errs[0].(map[string]interface{})
					verifAssert(e0["message"] == "upstream error "+s.id, "an upstream error keeps its message and its subscription")
				}
				continue
			}
			if len(ev) > 8 && ev[:8] == "partial:" {
				// an event that carries errors next to data is forwarded with its errors, and what it
				// shows of the data never includes helper fields the client did not select
				errs, _ := p["errors"].([]interface{})
				verifAssert(len(errs) > 0, "the errors of a partial event are forwarded")
				if len(errs) > 0 {
					e0, _ := errs[0].(map[string]interface{})
					ext, _ := e0["extensions"].(map[string]interface{})
					pth, _ := e0["path"].([]interface{})
					verifAssert(len(errs) == 1 && e0["message"] == "partial "+s.id && ext != nil && ext["code"] == "E7" && len(pth) == 2 && pth[0] == "humanChanged" && pth[1] == "age",
						"the error of a partial event keeps its message, extensions and path")
				}
				if d, ok := p["data"].(map[string]interface{}); ok {
					if hc, ok := d["humanChanged"].(map[string]interface{}); ok {
						_, hasID := hc["id"]
						verifAssert(!hasID, "helper fields are removed from partial events too")
					}
				}
				continue
			}
			// reference: the client's operation on the merged schema over the world of that event
			w := vSubWorld()
			w.roots["Subscription.humanChanged"] = vRef{"Human", ev}
			doc, _ := gqlparser.LoadQuery(f.gw.schema, s.query)
			exp := vEval(f.gw.schema, w, doc.Operations[0].SelectionSet, "Subscription", nil, vVarsFor(doc.Operations[0], s.vars))
			b, _ := json.Marshal(exp)
			var expN map[string]interface{}
			json.Unmarshal(b, &expN)
			d, _ := p["data"].(map[string]interface{})
			verifAssert(d != nil, "an event is delivered as data")
			verifAssert(p["errors"] == nil, "a healthy event carries no errors")
			if d != nil {
				vAssertSame("", d, expN)
			}
		}
	}
	for id := range got {
		known := false
		for _, s := range subs {
			known = known || s.id == id
		}
		verifAssert(known, "no frame carries an id that is not a running subscription")
	}
	if nsubs == 2 {
		verifReach("two subscriptions")
	}
	verifReach("events checked")
}
