package pebbles

import (
	"encoding/json"
	"errors"
	"net/http"
	"sync"

	"github.com/buildbuildio/pebbles/planner"
	"github.com/buildbuildio/pebbles/queryer"
	"github.com/buildbuildio/pebbles/requests"
)

// ---- HTTP-level federation: the gateway talks to the fake services through the real
// MultiOpQueryer (queryBatch / fetch / JSON), the harness is the transport. ----

var vHTTPFed *vFed

type vHTTPFault struct {
	url    string
	call   int                      // which HTTP call to that service
	status int                      // != 0: answer with this status
	raw    string                   // != "": answer with this body verbatim
	errs   []map[string]interface{} // != nil: answer element 0 with these GraphQL errors
	split  bool                     // with two errors: the second one comes with element 1 of the same batch (if there is one)
	terr   bool                     // transport error
}

var vFault *vHTTPFault
var vFault2 *vHTTPFault // a second, independent fault (another service failing in the same step)
var vMutHookFn func(url string, call int, resps []map[string]interface{})
var vHTTPCalls map[string]int

// verifDo is what (*http.Client).Do becomes
var vMultipartHookFn func(url string, req *http.Request) (*http.Response, bool)

// the fake services are one linearisable server model: concurrent calls are served one at a time
var vDoMu sync.Mutex

// vStallFn, when set, serves a call before anything else (a service that does not answer)
var vStallFn func(req *http.Request) (*http.Response, error, bool)

func verifDo(req *http.Request) (*http.Response, error) {
	if vStallFn != nil {
		if resp, err, handled := vStallFn(req); handled {
			return resp, err
		}
	}
	vDoMu.Lock()
	defer vDoMu.Unlock()
	url := req.Host
	if vMultipartHookFn != nil {
		if resp, handled := vMultipartHookFn(url, req); handled {
			return resp, nil
		}
	}
	if vHTTPCalls == nil {
		vHTTPCalls = map[string]int{}
	}
	call := vHTTPCalls[url]
	vHTTPCalls[url] = call + 1
	var ins []*requests.Request
	if err := json.Unmarshal(verifRequestBody(req), &ins); err != nil {
		verifAssert(false, "the gateway sends a JSON array of requests downstream")
	}
	svc := vHTTPFed.svcByURL(url)
	if svc == nil {
		return nil, errors.New("dial tcp: no such host " + url)
	}
	out, qerr := svc.Query(ins)
	resps := make([]map[string]interface{}, len(ins))
	for i := range resps {
		if qerr != nil {
			resps[i] = map[string]interface{}{"data": nil, "errors": []map[string]interface{}{{"message": qerr.Error()}}}
		} else {
			resps[i] = map[string]interface{}{"data": out[i]}
		}
	}
	if vMutHookFn != nil {
		vMutHookFn(url, call, resps)
	}
	if f := vFault2; f != nil && f.url == url && f.call == call && f.errs != nil {
		resps[0] = map[string]interface{}{"data": nil, "errors": f.errs}
		b, _ := json.Marshal(resps)
		return &http.Response{StatusCode: 200, Body: &vBody{b}}, nil
	}
	if f := vFault; f != nil && f.url == url && f.call == call {
		switch {
		case f.terr:
			return nil, errors.New("connection reset by peer")
		case f.raw != "":
			st := 200
			if f.status != 0 {
				st = f.status
			}
			return &http.Response{StatusCode: st, Body: &vBody{[]byte(f.raw)}}, nil
		case f.errs != nil:
			if f.split && len(f.errs) == 2 && len(resps) >= 2 {
				resps[0] = map[string]interface{}{"data": nil, "errors": f.errs[:1]}
				resps[1] = map[string]interface{}{"data": nil, "errors": f.errs[1:]}
				verifReach("two failed requests in one batch")
			} else {
				resps[0] = map[string]interface{}{"data": nil, "errors": f.errs}
			}
		}
		if f.status != 0 {
			b, _ := json.Marshal(resps)
			return &http.Response{StatusCode: f.status, Body: &vBody{b}}, nil
		}
	}
	b, _ := json.Marshal(resps)
	return &http.Response{StatusCode: 200, Body: &vBody{b}}, nil
}

func vNewHTTPFed(w *vWorld, maxBatch int, opts []GatewayOption, sdls ...string) *vFed {
	opts = append(opts, WithQueryerFactory(func(_ *planner.PlanningContext, url string) queryer.Queryer {
		return queryer.NewMultiOpQueryer(url, maxBatch).WithHTTPClient(&http.Client{Transport: vNativeTransport{verifDo}})
	}))
	f := vNewFedOpts(w, opts, sdls...)
	vHTTPFed = f
	vFault, vFault2 = nil, nil
	vHTTPCalls = map[string]int{}
	return f
}

// ---------------- C10-K1: invalid operations never reach a service ----------------

type vBadOp struct {
	q      string
	opName string
	own    bool // rejected by the gateway's own operation selection (carries its validation code)
}

func vInvalidOps() []vBadOp {
	return []vBadOp{
		{q: `{ me { nope } }`},
		{q: `{ me { ... on Alien { name } } }`},
		{q: `{ me { name(loud: true) } }`},
		{q: `query($u: Int) { me { name(upper: $u) } }`},
		{q: `{ me { ...A } } fragment A on Human { ...B } fragment B on Human { ...A }`},
		{q: `query A { me { name } } query B { me { phone } }`, own: true},
		{q: `query A { me { name } }`, opName: "Nope", own: true},
		{q: `{ me { name } }`, opName: "A", own: true}, // names an operation the document does not contain
		{q: `{ me { name }`},
		{q: `{ me }`},
		{q: `mutation { saveHuman { name } }`},
		{q: `{ me { name } } fragment Unused on Human { name }`},
		{q: `query($x: Boolean!) { me { name } }`},
		{q: `{ getHumans(first: 1) { name } }`},
		{q: `subscription { me { name } }`},
	}
}

func VerifInvalidOperations() {
	ops := vInvalidOps()
	op := ops[verifChoice("op", len(ops))]
	verifLog("op: " + op.q)
	vK = 1
	f := vNewHTTPFed(vReadmeWorld(1), 3000, nil, vSA, vSB)
	batch := verifChoice("batch", 2) == 1
	pos := 0 // position of the invalid operation in the batch
	if batch {
		pos = verifChoice("invalidpos", 2)
	}
	m := map[string]interface{}{"query": op.q}
	if op.opName != "" {
		m["operationName"] = op.opName
	}
	var body []byte
	var aloneLog []vSub
	if batch {
		// next to a valid operation: the valid one is served, the invalid one is not
		f.vPost(`{ me { name } }`, nil, "")
		aloneLog = f.log
		f.log = nil
		if pos == 0 {
			body, _ = json.Marshal([]interface{}{m, map[string]interface{}{"query": `{ me { name } }`}})
		} else {
			body, _ = json.Marshal([]interface{}{map[string]interface{}{"query": `{ me { name } }`}, m})
		}
	} else {
		body, _ = json.Marshal(m)
	}
	rec := vPostRaw(f.gw, "application/json", body)
	verifAssert(rec.code == 200, "an invalid operation is answered with status 200 and errors")
	var res map[string]interface{}
	if batch {
		var arr []map[string]interface{}
		verifAssert(json.Unmarshal(rec.body, &arr) == nil && len(arr) == 2, "a batch is answered with an array")
		verifAssert(arr[0] != nil && arr[1] != nil, "every operation of the batch is answered at its own position")
		if arr[0] == nil || arr[1] == nil {
			return
		}
		res = arr[pos]
		d1, _ := arr[1-pos]["data"].(map[string]interface{})
		verifAssert(d1 != nil && arr[1-pos]["errors"] == nil, "the valid operation in the same batch is served")
	} else {
		verifAssert(json.Unmarshal(rec.body, &res) == nil, "the response is one JSON object")
	}
	errs, _ := res["errors"].([]interface{})
	verifAssert(len(errs) > 0, "an invalid operation is answered with errors")
	d, has := res["data"]
	verifAssert(has && d == nil, "an invalid operation is answered with data: null")
	verifAssert(len(f.log) == len(aloneLog), "an invalid operation causes no downstream request")
	for i := range f.log {
		if i < len(aloneLog) {
			verifAssert(f.log[i].query == aloneLog[i].query && f.log[i].url == aloneLog[i].url, "the only downstream requests are those of the valid operation in the batch")
		}
	}
	if op.own && len(errs) > 0 {
		e0, _ := errs[0].(map[string]interface{})
		ext, _ := e0["extensions"].(map[string]interface{})
		verifAssert(ext != nil && ext["code"] == "GRAPHQL_VALIDATION_FAILED", "unknown or ambiguous operations carry the gateway's validation code")
	}
	if batch {
		verifReach("invalid next to valid")
	} else {
		verifReach("invalid alone")
	}
}

// ---------------- C10-K2: service errors reach the client intact ----------------

func vErrPayload(i int) map[string]interface{} {
	e := map[string]interface{}{"message": "downstream says " + verifAtom("msg"+verifItoa(i), 2)}
	switch verifChoice("ext"+verifItoa(i), 4) {
	case 1:
		e["extensions"] = nil
	case 2:
		e["extensions"] = map[string]interface{}{}
	case 3:
		e["extensions"] = map[string]interface{}{"code": "E" + verifItoa(i), "n": verifInt("extn"+verifItoa(i), 0, 9)}
	}
	switch verifChoice("path"+verifItoa(i), 3) {
	case 1:
		e["path"] = []interface{}{"me", "phone"}
	case 2:
		e["path"] = []interface{}{"getHumans", 1, "name"}
	}
	if verifChoice("loc"+verifItoa(i), 2) == 1 {
		e["locations"] = []interface{}{map[string]interface{}{"line": 2, "column": 3}}
	}
	return e
}

func VerifServiceErrors() {
	vK = 2
	vMinLen = 2 // two humans: two node lookups, which a small batch size splits into several calls
	maxBatch := []int{3000, 1}[verifChoice("maxbatch", 2)]
	f := vNewHTTPFed(vReadmeWorld(2), maxBatch, nil, vSA, vSB)
	n := 1 + verifChoice("nerrs", 2)
	var errsDown []map[string]interface{}
	for i := 0; i < n; i++ {
		errsDown = append(errsDown, vErrPayload(i))
	}
	if n == 2 && errsDown[0]["message"] == errsDown[1]["message"] {
		// two errors with the same message are told apart by their paths
		verifAssume(!vEqJSON(vJSONNorm10(errsDown[0]["path"]), vJSONNorm10(errsDown[1]["path"])))
		verifReach("same message twice")
	}
	// which step fails: the root step (svc0) or the child step (svc1)
	target := verifChoice("failing", 2)
	vFault = &vHTTPFault{url: []string{"svc0", "svc1"}[target], call: 0, errs: errsDown}
	if n == 2 && target == 1 && maxBatch > 1 {
		vFault.split = verifChoice("split", 2) == 1
	}
	_, out := f.vPost(`{ getHumans { name phone } }`, nil, "")
	got, _ := out["errors"].([]interface{})
	verifAssert(len(got) >= n, "every downstream error reaches the client")
	for _, de := range errsDown {
		found := false
		for _, ge := range got {
			gm, _ := ge.(map[string]interface{})
			if gm == nil || gm["message"] != de["message"] {
				continue
			}
			if !vEqJSON(vJSONNorm10(gm["path"]), vJSONNorm10(de["path"])) {
				continue // another error with the same message
			}
			found = true
			wantExt, hasExt := de["extensions"]
			if hasExt && wantExt != nil {
				vAssertSame(".errors.extensions", vJSONNorm10(gm["extensions"]), vJSONNorm10(wantExt))
			}
		}
		verifAssert(found, "a downstream error is forwarded with its message and path")
	}
	if maxBatch == 1 {
		verifReach("chunked downstream calls")
	}
	if target == 1 {
		verifReach("child step failed")
	} else {
		verifReach("root step failed")
	}
}

// vEqJSON compares two JSON-normalised values
func vEqJSON(a, b interface{}) bool {
	switch x := a.(type) {
	case nil:
		return b == nil
	case []interface{}:
		y, ok := b.([]interface{})
		if !ok || len(x) != len(y) {
			return false
		}
		for i := range x {
			if !vEqJSON(x[i], y[i]) {
				return false
			}
		}
		return true
	case map[string]interface{}:
		y, ok := b.(map[string]interface{})
		if !ok || len(x) != len(y) {
			return false
		}
		for k, v := range x {
			w, has := y[k]
			if !has || !vEqJSON(v, w) {
				return false
			}
		}
		return true
	}
	return a == b
}

// VerifTwoServicesFail: two services answer their sub-requests of the same plan level with errors;
// every error reaches the client, also when both carry the same message.
func VerifTwoServicesFail() {
	vK = 1
	vMinLen = 1
	f := vNewHTTPFed(vReadmeWorld(1), 3000, nil, vSA, vSB)
	level := verifChoice("level", 2) // 0: two root steps; 1: two child steps of one root step
	q := `{ getHumans { name } getAnimals { name } }`
	urls := []string{"svc0", "svc1"}
	if level == 1 {
		f = vNewHTTPFed(vReadmeWorld(1), 3000, nil, vSA, vSB, vSC)
		q = `{ me { phone email } }`
		urls = []string{"svc1", "svc2"}
	}
	msgs := []string{"failed: " + verifAtom("msgA", 2), "failed: " + verifAtom("msgB", 2)}
	paths := [][]interface{}{{"x", "a"}, {"x", "b"}}
	exts := []string{"EA", "EB"}
	mk := func(i int) []map[string]interface{} {
		return []map[string]interface{}{{"message": msgs[i], "path": paths[i], "extensions": map[string]interface{}{"code": exts[i]}}}
	}
	vFault = &vHTTPFault{url: urls[0], call: 0, errs: mk(0)}
	vFault2 = &vHTTPFault{url: urls[1], call: 0, errs: mk(1)}
	_, out := f.vPost(q, nil, "")
	got, _ := out["errors"].([]interface{})
	for i := 0; i < 2; i++ {
		found := false
		for _, ge := range got {
			gm, _ := ge.(map[string]interface{})
			if gm == nil || gm["message"] != msgs[i] {
				continue
			}
			ext, _ := gm["extensions"].(map[string]interface{})
			if ext != nil && ext["code"] == exts[i] && vEqJSON(vJSONNorm10(gm["path"]), vJSONNorm10(paths[i])) {
				found = true
			}
		}
		verifAssert(found, "the error of every failing service reaches the client with its message, extensions and path")
	}
	if msgs[0] == msgs[1] {
		verifReach("same message from two services")
	}
	verifReach("two services failed")
}

func vJSONNorm10(v interface{}) interface{} {
	b, _ := json.Marshal(map[string]interface{}{"v": v})
	var out map[string]interface{}
	json.Unmarshal(b, &out)
	return out["v"]
}
