package pebbles

import (
	"sort"

	"github.com/buildbuildio/pebbles/planner"
)

// C13: the same operation sent twice yields the same data, the same set of errors and the same
// multiset of sub-requests per service, whatever order Go's maps are iterated in (the engine makes
// the iteration order of up to `maporder` range loops of the code under test symbolic) .

func vSubKeys(log []vSub) []string {
	var ks []string
	for _, s := range log {
		ks = append(ks, s.url+" | "+vNorm(s.query)+" | "+vVarsKey(s.vars))
	}
	sort.Strings(ks)
	return ks
}

func vVarsKey(m map[string]interface{}) string {
	ks := vSortedKeys9(m)
	out := ""
	for _, k := range ks {
		if s, ok := m[k].(string); ok {
			out += k + "=" + s + ";"
		} else {
			out += k + ";"
		}
	}
	return out
}

func vSortedKeys9(m map[string]interface{}) []string {
	ks := make([]string, 0, len(m))
	for k := range m {
		ks = append(ks, k)
	}
	sort.Strings(ks)
	return ks
}

func vErrSet(out map[string]interface{}) []string {
	var ms []string
	errs, _ := out["errors"].([]interface{})
	for _, e := range errs {
		if em, ok := e.(map[string]interface{}); ok {
			if s, ok := em["message"].(string); ok {
				ms = append(ms, s)
			}
		}
	}
	sort.Strings(ms)
	return ms
}

func VerifDeterminism() {
	vProp = "C13"
	vK = verifParam("k", 2)
	vMinLen = 1
	sc, op := vPickScenario()
	var vars map[string]interface{}
	if op.vars != nil {
		vars = op.vars()
	}
	f := vNewFed(sc.w, nil, sc.sdls...)
	_, outA := f.vPost(op.q, vars, op.opName)
	logA := vSubKeys(f.log)
	f.log = nil
	_, outB := f.vPost(op.q, vars, op.opName)
	logB := vSubKeys(f.log)

	// an operation with a recorded finding about its data has that judged on paths of its own, so that
	// the finding hides nothing else (errors and sub-requests are compared on the other paths)
	section := 0
	if op.known13 != "" {
		section = 1 + verifChoice("section", 2)
		if section == 2 {
			verifKnown("C13-"+op.known13, true)
		}
	}
	dA, _ := outA["data"].(map[string]interface{})
	dB, _ := outB["data"].(map[string]interface{})
	if section != 1 {
		verifAssert((dA == nil) == (dB == nil), "data is present in both answers or in neither")
		if dA != nil && dB != nil {
			vAssertSame("", dA, dB)
		}
	}
	if section != 2 {
		eA, eB := vErrSet(outA), vErrSet(outB)
		verifAssert(len(eA) == len(eB), "the same set of errors")
		for i := range eA {
			if i < len(eB) {
				verifAssert(eA[i] == eB[i], "the same set of errors")
			}
		}
		verifAssert(len(logA) == len(logB), "the same multiset of sub-requests")
		for i := range logA {
			if i < len(logB) {
				verifAssert(logA[i] == logB[i], "the same multiset of sub-requests per service")
			}
		}
	}
	verifReach("two runs compared")
}

// VerifRepeatWithCache: operation B is sent, then operation A, then B again, to one gateway with the
// caching planner: both answers to B must coincide (a request in between must not change an answer).
func VerifRepeatWithCache() {
	vProp = "C13"
	vK = 1
	vMinLen = 1
	ops := vReadmeOps()
	if n := verifParam("pairops", 0); n > 0 && n < len(ops) {
		// every ordered pair of the first n operations (the list has grown; all pairs of all of them is the thorough tier)
		ops = ops[:n]
	}
	bi := verifChoice("B", len(ops))
	ai := verifChoice("A", len(ops))
	A, B := ops[ai], ops[bi]
	verifLog("op: " + B.q + " after " + A.q)
	if A.known != "" || B.known != "" {
		verifAssume(false) // operations whose translation is a recorded C01/C02 finding are outside this kernel
	}
	varsOf := func(o vOp) map[string]interface{} {
		if o.vars != nil {
			return o.vars()
		}
		return nil
	}
	va, vb := varsOf(A), varsOf(B)
	f := vNewFed(vReadmeWorld(1), []GatewayOption{WithPlanner(planner.NewCachedPlanner(1000000000))}, vSA, vSB, vSC)
	_, out1 := f.vPost(B.q, vb, B.opName)
	f.vPost(A.q, va, A.opName)
	_, out2 := f.vPost(B.q, vb, B.opName)
	d1, _ := out1["data"].(map[string]interface{})
	d2, _ := out2["data"].(map[string]interface{})
	verifAssert((d1 == nil) == (d2 == nil), "data is present in both answers or in neither")
	if d1 != nil && d2 != nil {
		vAssertSame("", d2, d1)
	}
	e1, e2 := vErrSet(out1), vErrSet(out2)
	verifAssert(len(e1) == len(e2), "the same set of errors")
	verifReach("repeat compared")
}
