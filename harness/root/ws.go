package pebbles

import (
	"encoding/json"
	"errors"
	"io"
	"net"
	"net/http"
	"time"

	"github.com/gobwas/ws"

	"github.com/buildbuildio/pebbles/merger"
	"github.com/buildbuildio/pebbles/planner"
	"github.com/buildbuildio/pebbles/queryer"
	"github.com/buildbuildio/pebbles/requests"
)

// Websocket seam for the subscription kernels (C17, C18): a connection is a message queue towards
// the gateway plus a record of everything the gateway writes. A text frame is written as TWO writes
// (header, payload) with a scheduling point in between, which is what ws.WriteFrame does.

type vAddr struct{ c *vConn }

func (vAddr) Network() string { return "verif" }
func (vAddr) String() string  { return "verif" }

// vConnOf finds the connection model behind whatever wrapper the code under test put around it
func vConnOf(x interface{}) *vConn {
	if c, ok := x.(*vConn); ok {
		return c
	}
	return x.(interface{ LocalAddr() net.Addr }).LocalAddr().(vAddr).c
}

type vHalf struct {
	frame   int
	payload bool
}

type vConn struct {
	name    string
	in      chan []byte   // messages the gateway will read from this connection
	closeCh chan struct{} // closed by Close
	closed  bool
	closes  int
	halves  []vHalf
	frames  [][]byte // payloads, in the order their second half was written
	nframes int
	raw     [][]byte
	torn    bool
	midMessage bool       // a frame reader is between the frames of one message
	reset   bool          // the peer is gone (connection reset): every write fails although this side has not closed
	wrote   chan struct{} // receives a token after every complete frame written by the gateway (buffered)
}

func vNewConn(name string) *vConn {
	return &vConn{name: name, in: make(chan []byte), closeCh: make(chan struct{}), wrote: make(chan struct{}, 64)}
}

func (c *vConn) Read(p []byte) (int, error) { return 0, io.EOF }
func (c *vConn) Write(p []byte) (int, error) {
	if c.closed {
		return 0, errors.New("write on closed connection")
	}
	if c.reset {
		return 0, errors.New("write: connection reset by peer")
	}
	if len(c.halves) > 0 && !c.halves[len(c.halves)-1].payload {
		c.torn = true // raw bytes land between the header and the payload of a text frame
	}
	c.raw = append(c.raw, p)
	return len(p), nil
}

// verifWsWriteFrame is what ws.WriteFrame becomes: header and payload are separate writes
func verifWsWriteFrame(w io.Writer) error {
	if _, err := w.Write([]byte("frame-header")); err != nil {
		return err
	}
	verifYield()
	_, err := w.Write([]byte("frame-payload"))
	return err
}
func (c *vConn) Close() error {
	c.closes++
	if c.closed {
		return errors.New("use of closed network connection")
	}
	c.closed = true
	close(c.closeCh)
	return nil
}
func (c *vConn) LocalAddr() net.Addr                { return vAddr{c} }
func (c *vConn) RemoteAddr() net.Addr               { return vAddr{c} }
func (c *vConn) SetDeadline(t time.Time) error      { return nil }
func (c *vConn) SetReadDeadline(t time.Time) error  { return nil }
func (c *vConn) SetWriteDeadline(t time.Time) error { return nil }

// verifWsWrite is what wsutil.WriteServerText / WriteClientText become
func verifWsWrite(w io.Writer, p []byte) error {
	c := vConnOf(w)
	if c.closed {
		return errors.New("write on closed connection")
	}
	if c.reset {
		return errors.New("write: connection reset by peer")
	}
	id := c.nframes
	c.nframes++
	c.halves = append(c.halves, vHalf{id, false})
	verifYield() // header and payload are separate writes on the wire
	if c.closed {
		return errors.New("write on closed connection")
	}
	c.halves = append(c.halves, vHalf{id, true})
	c.frames = append(c.frames, p)
	select {
	case c.wrote <- struct{}{}:
	default:
	}
	return nil
}

// vFragMark: first byte of a frame that is not the last one of its message (RFC 6455 lets a peer split a
// message into a text frame and continuation frames); every other entry of c.in is a whole message or a last frame
const vFragMark = 0xFE

// vSendFragmented delivers one message in two frames
func (c *vConn) vSendFragmented(m []byte) bool {
	h := len(m) / 2
	return c.vSend(append([]byte{vFragMark}, m[:h]...)) && c.vSend(m[h:])
}

// verifWsRead is what wsutil.ReadClientText / ReadServerText become: whole messages, fragments reassembled
func verifWsRead(rw io.ReadWriter) ([]byte, error) {
	c := vConnOf(rw)
	var msg []byte
	for {
		select {
		case m, ok := <-c.in:
			if !ok {
				return nil, io.EOF
			}
			if len(m) > 0 && m[0] == vFragMark {
				msg = append(msg, m[1:]...)
				continue
			}
			return append(msg, m...), nil
		case <-c.closeCh:
			return nil, errors.New("use of closed network connection")
		}
	}
}

// verifWsReadFrame is what ws.ReadFrame becomes: one frame, whatever message it belongs to
func verifWsReadFrame(r io.Reader) (ws.Frame, error) {
	c := vConnOf(r.(io.ReadWriter))
	select {
	case m, ok := <-c.in:
		if !ok {
			return ws.Frame{}, io.EOF
		}
		f := ws.Frame{Header: ws.Header{Fin: true, OpCode: ws.OpText}}
		if c.midMessage {
			f.Header.OpCode = ws.OpContinuation
		}
		if len(m) > 0 && m[0] == vFragMark {
			f.Header.Fin = false
			m = m[1:]
		}
		c.midMessage = !f.Header.Fin
		f.Payload = m
		f.Header.Length = int64(len(m))
		return f, nil
	case <-c.closeCh:
		return ws.Frame{}, errors.New("use of closed network connection")
	}
}

// contiguous: no other write between the two halves of a frame
func (c *vConn) contiguous() bool {
	for i := 0; i+1 < len(c.halves); i += 2 {
		if c.halves[i].payload || !c.halves[i+1].payload || c.halves[i].frame != c.halves[i+1].frame {
			return false
		}
	}
	return !c.torn && (len(c.halves)%2 == 0 || !c.halves[len(c.halves)-1].payload)
}

func verifNewCancel() (chan struct{}, func()) {
	ch := make(chan struct{})
	done := false
	return ch, func() {
		if !done {
			done = true
			close(ch)
		}
	}
}

var vMaxTicks = 1

// verifTicker feeds a time.Ticker's channel: it may tick at any scheduling point, at most vMaxTicks times
func verifTicker(c chan time.Time, stop chan struct{}) {
	for i := 0; i < vMaxTicks; i++ {
		select {
		case c <- time.Time{}:
		case <-stop:
			return
		}
	}
	<-stop
}

// ---- the world of one client connection ----

type vWsWorld struct {
	client    *vConn
	upstreams []*vConn
	upScript  func(up *vConn, n int) // behaviour of the n-th upstream connection (runs in its own goroutine)
	dialErr   bool
	upBroken  bool // upstream connections fail every write
	started   []string // start messages received by upstreams (query texts)
}

var vWs *vWsWorld

func verifWsUpgrade() (net.Conn, error) { return vWs.client, nil }

func verifWsDial(url string) (net.Conn, error) {
	if vWs.dialErr {
		return nil, errors.New("dial refused")
	}
	up := vNewConn("upstream")
	// an upstream that accepts the connection and is gone before the first write
	up.reset = vWs.upBroken
	n := len(vWs.upstreams)
	vWs.upstreams = append(vWs.upstreams, up)
	go vWs.upScript(up, n)
	return up, nil
}

// vSend delivers one message to the gateway's reader unless the connection is closed first
func (c *vConn) vSend(m []byte) bool {
	select {
	case c.in <- m:
		return true
	case <-c.closeCh:
		return false
	}
}

func vClientMsg(typ, id, query string) []byte { return vClientMsgVars(typ, id, query, nil) }

func vClientMsgVars(typ, id, query string, vars map[string]interface{}) []byte {
	m := map[string]interface{}{"type": typ}
	if id != "" {
		m["id"] = id
	}
	if query != "" {
		p := map[string]interface{}{"query": query}
		if vars != nil {
			p["variables"] = vars
		}
		m["payload"] = p
	}
	b, _ := json.Marshal(m)
	return b
}

func vServerData(id string, data map[string]interface{}) []byte {
	b, _ := json.Marshal(map[string]interface{}{"type": "data", "id": id, "payload": map[string]interface{}{"data": data}})
	return b
}

const vSubA = `
interface Node { id: ID! }
type Human implements Node { id: ID! name: String! best: Human meta: Meta }
type Meta { section: Section }
type Section { editors: [Human!]! chief: Human deputy: Human }
type Query { node(id: ID!): Node me: Human }
type Subscription { humanChanged: Human! tick: Int }
`
const vSubB = `
interface Node { id: ID! }
type Human implements Node { id: ID! phone(cc: Int): String! }
type Query { node(id: ID!): Node phones: Int }
`

func vSubWorld() *vWorld {
	w := &vWorld{ents: map[string]vEnt{}, roots: map[string]interface{}{}}
	w.ents["h1"] = vEnt{"__typename": "Human", "id": "h1", "best": vRef{"Human", "h2"}, "meta": vRef{"Meta", "m1"}}
	w.ents["h2"] = vEnt{"__typename": "Human", "id": "h2", "best": nil, "meta": nil}
	w.ents["m1"] = vEnt{"__typename": "Meta", "id": "m1", "section": vRef{"Section", "s1"}}
	w.ents["s1"] = vEnt{"__typename": "Section", "id": "s1", "editors": []vRef{{"Human", "h1"}, {"Human", "h2"}}, "chief": vRef{"Human", "h2"}, "deputy": vRef{"Human", "h1"}}
	w.roots["Query.me"] = vRef{"Human", "h1"}
	return w
}

// vNewSubFed: a federation whose services answer queries directly and subscriptions through the real
// (*MultiOpQueryer).Subscribe over the websocket seam
const vSubMerged = `
interface Node { id: ID! }
type Human implements Node { id: ID! name: String! best: Human meta: Meta phone(cc: Int): String! }
type Meta { section: Section }
type Section { editors: [Human!]! chief: Human deputy: Human }
type Query { node(id: ID!): Node me: Human phones: Int }
type Subscription { humanChanged: Human! tick: Int }
`

// vQuickMerger returns the merge result of vSubA + vSubB without interpreting the merger (set-up cost
// of the all-interleavings kernels; the merger itself is the subject of C03-C05)
type vQuickMerger struct{}

func (vQuickMerger) Merge(inputs []*merger.MergeInput) (*merger.MergeResult, error) {
	tm := make(merger.TypeURLMap)
	for _, in := range inputs {
		tm.SetFromSchema(in.Schema.Types, in.URL)
	}
	return &merger.MergeResult{Schema: vMustSchema(vSubMerged), TypeURLMap: tm}, nil
}

func vNewSubFed(w *vWorld, opts []GatewayOption) *vFed {
	var f *vFed
	if verifParam("quickmerge", 1) == 1 {
		opts = append(opts, WithMerger(vQuickMerger{}))
	}
	opts = append(opts, WithQueryerFactory(func(_ *planner.PlanningContext, url string) queryer.Queryer {
		return &vSubQueryer{MultiOpQueryer: queryer.NewMultiOpQueryer("http://"+url, 10), svc: f.svcByURL(url)}
	}))
	f = vNewFedOpts(w, opts, vSubA, vSubB)
	return f
}

// vSubQueryer: Query goes to the fake service, Subscribe is the repository's own
type vSubQueryer struct {
	*queryer.MultiOpQueryer
	svc *vSvc
}

func (q *vSubQueryer) Query(in []*requests.Request) ([]map[string]interface{}, error) {
	return q.svc.Query(in)
}

func vWsRequest() *http.Request {
	r := &http.Request{Method: http.MethodGet, Header: http.Header{}}
	r.Header.Set("Upgrade", "websocket")
	return r
}
