package pebbles

import (
	"encoding/json"
	"errors"

	"github.com/buildbuildio/pebbles/executor"
	"github.com/buildbuildio/pebbles/planner"
	"github.com/vektah/gqlparser/v2/ast"
)

// C08: batched requests are answered in order and independently, under every interleaving of the
// per-operation goroutines (real queryHandler closures, real AsyncMapReduce, real Emit, real Parse,
// real planner; the executor is a harness fake behind the repository's interface).

const vS8 = `
type Query { a(n: Int): String legacy: String @deprecated(reason: "use b") b: String }
type Mutation { m: String }
`

type vExec8 struct{ seen []string }

func (e *vExec8) Execute(ctx *executor.ExecutionContext) (map[string]interface{}, error) {
	tag, _ := ctx.Request.Variables["t"].(string)
	mode, _ := ctx.Request.Variables["mode"].(string)
	switch mode {
	case "slow":
		verifYield()
		verifYield()
	case "err":
		return nil, errors.New("exec failed " + tag)
	case "partial":
		return map[string]interface{}{"tag": tag}, errors.New("partial " + tag)
	}
	// no cross-talk: the executor sees the request of its own operation (its text and its variables)
	return map[string]interface{}{"tag": tag, "q": ctx.Request.Query, "n": ctx.Request.Variables["n"]}, nil
}

type vPlan8 struct{ inner planner.SequentialPlanner }

func (p vPlan8) Plan(ctx *planner.PlanningContext) (*planner.QueryPlan, error) {
	if mode, _ := ctx.Request.Variables["mode"].(string); mode == "planerr" {
		tag, _ := ctx.Request.Variables["t"].(string)
		return nil, errors.New("plan failed " + tag)
	}
	return p.inner.Plan(ctx)
}

type vReq8 struct {
	Query         string                 `json:"query"`
	Variables     map[string]interface{} `json:"variables"`
	OperationName string                 `json:"operationName,omitempty"`
}

func vPool8(i int) vReq8 {
	tag := "t" + verifItoa(i)
	vars := func(mode string) map[string]interface{} { return map[string]interface{}{"t": tag, "mode": mode} }
	class := verifChoice("class"+verifItoa(i), verifParam("classes", 15))
	if p := verifParam("pin"+verifItoa(i), -1); p >= 0 {
		verifAssume(class == p)
	}
	switch class {
	case 0:
		return vReq8{Query: `{ a }`, Variables: vars("ok")}
	case 1:
		return vReq8{Query: `{ a }`, Variables: vars("err")}
	case 2:
		return vReq8{Query: `{ b }`, Variables: vars("slow")}
	case 3:
		return vReq8{Query: `{ a `, Variables: vars("ok")}
	case 4:
		return vReq8{Query: `{ a }`, Variables: vars("planerr")}
	case 5:
		return vReq8{Query: `{ __schema { queryType { name } } __type(name: "Query") { fields { name } } }`, Variables: vars("ok")}
	case 6:
		return vReq8{Query: `mutation { m }`, Variables: vars("ok")}
	case 7:
		return vReq8{Query: `{ zz }`, Variables: vars("ok")}
	case 8:
		return vReq8{Query: `query A { a } query B { b }`, Variables: vars("ok")}
	case 9:
		return vReq8{Query: `query A { a }`, Variables: vars("ok"), OperationName: "Nope"}
	case 11:
		return vReq8{Query: `{ legacy b }`, Variables: vars("ok")}
	case 12:
		// no variables object at all; the operation declares a default
		return vReq8{Query: `query A($n: Int = 7) { a(n: $n) }`}
	case 13:
		return vReq8{Query: `query B($n: Int) { x: a(n: $n) }`}
	case 14:
		// a field the gateway answers itself next to a field whose execution fails
		return vReq8{Query: `{ __typename a }`, Variables: vars("err")}
	}
	return vReq8{Query: `{ a }`, Variables: vars("partial")}
}

func vGateway8() *Gateway {
	sc := vMustSchema(vS8)
	gw, err := NewGateway([]string{"svc0"}, WithRemoteSchemaIntrospector(vFixedIntrospector{[]*ast.Schema{sc}}),
		WithPlanner(vPlan8{}), WithExecutor(&vExec8{}))
	if err != nil {
		panic("harness: gateway construction failed: " + err.Error())
	}
	return gw
}

func VerifBatch() {
	R := verifChoice("R", verifParam("rmax", 2)+1)
	if R < verifParam("rmin", 0) {
		verifAssume(false)
	}
	batchMode := R != 1 || verifChoice("array", 2) == 1
	reqs := make([]vReq8, R)
	for i := range reqs {
		reqs[i] = vPool8(i)
	}
	// what each operation receives when it is sent alone, to a gateway of its own
	alone := make([]interface{}, R)
	for i := range reqs {
		b, _ := json.Marshal(reqs[i])
		rec := vPostRaw(vGateway8(), "application/json", b)
		var out interface{}
		verifAssert(json.Unmarshal(rec.body, &out) == nil, "a single operation is answered with one JSON document")
		alone[i] = out
	}
	var body []byte
	if batchMode {
		body, _ = json.Marshal(reqs)
	} else {
		body, _ = json.Marshal(reqs[0])
	}
	gw := vGateway8()
	rec := vPostRaw(gw, "application/json", body)
	verifAssert(rec.code == 200, "status 200")
	var out interface{}
	verifAssert(json.Unmarshal(rec.body, &out) == nil, "the response is one JSON document")
	if !batchMode {
		vAssertSame("", out, alone[0])
		verifReach("single")
		return
	}
	arr, isArr := out.([]interface{})
	verifAssert(isArr, "a batch is answered with an array")
	verifAssert(len(arr) == R, "a batch of N operations is answered with N results")
	for i := 0; i < R && i < len(arr); i++ {
		verifAssert(arr[i] != nil, "no result is missing")
		vAssertSame("["+verifItoa(i)+"]", arr[i], alone[i])
	}
	if R >= 2 {
		verifReach("batch of several")
	}
	if R == 0 {
		verifReach("empty batch")
	}
}

// VerifBatchCached: a batch on a gateway with the caching planner and the real executor; every result
// equals what the operation receives alone from a gateway with the plain planner. The operations of a
// batch plan one after the other or at the same time: whichever is planned first must not change what
// the other one is answered.
func VerifBatchCached() {
	vK = 1
	vMinLen = 1
	pool := []string{
		`{ me { phone } }`,
		`{ me { id phone } }`,
		`{ me { name phone } }`,
		`{ me { id name phone } }`,
		`query A { me { name } }`,
		`{ __typename me { name } }`,
	}
	qs := []string{pool[verifChoice("op0", len(pool))], pool[verifChoice("op1", len(pool))]}
	warm := verifChoice("warm", 2) == 1
	alone := make([]interface{}, 2)
	for i, q := range qs {
		f := vNewFed(vReadmeWorld(1), nil, vSA, vSB, vSC)
		_, out := f.vPost(q, nil, "")
		alone[i] = out
	}
	f := vNewFed(vReadmeWorld(1), []GatewayOption{WithPlanner(planner.NewCachedPlanner(1000000000))}, vSA, vSB, vSC)
	if warm {
		// an earlier batch on the same long-lived gateway
		b0, _ := json.Marshal([]interface{}{map[string]interface{}{"query": qs[1]}})
		vPostRaw(f.gw, "application/json", b0)
	}
	body, _ := json.Marshal([]interface{}{map[string]interface{}{"query": qs[0]}, map[string]interface{}{"query": qs[1]}})
	rec := vPostRaw(f.gw, "application/json", body)
	var arr []interface{}
	verifAssert(rec.code == 200 && json.Unmarshal(rec.body, &arr) == nil && len(arr) == 2, "a batch of two is answered with an array of two")
	for i := 0; i < 2 && i < len(arr); i++ {
		verifAssert(arr[i] != nil, "no result is missing")
		vAssertSame("["+verifItoa(i)+"]", arr[i], alone[i])
	}
	verifReach("cached batch compared")
}
