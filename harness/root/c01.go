package pebbles

import (
	"strings"

	"github.com/buildbuildio/pebbles/merger"
	"github.com/buildbuildio/pebbles/planner"
)

// C01 (and, through shared obligations, C02/C06/C12): the whole request path
// Handler -> Parse -> LoadQuery -> Plan -> Execute -> Clean -> Emit, interpreted, against services
// that evaluate what they receive, compared with a single-server reference.

const vSA = `
interface Node { id: ID! }
scalar JSON
type Human implements Node { id: ID! name(upper: Boolean): String! friends: [Human!]! best: Human age: Int tag(meta: JSON): String }
input TagIn { label: String weight: Int }
input HumanIn { name: String tags: [TagIn!] }
type Query { node(id: ID!): Node getHumans: [Human!]! me: Human findHumans(filter: [HumanIn!], grid: [[Int]], first: Int): [Human!]! maybe: [Human] nobody: [Human] must: Human! }
type Robot implements Node { id: ID! name: String! }
type SavePayload { human: Human query: Query }
type Mutation { saveHuman(name: String!): Human! saveBoth(name: String!): SavePayload }
`
const vSB = `
interface Node { id: ID! }
type Human implements Node { id: ID! phone(cc: Int = 7): String! fax(cc: Int!): String pets(where: PetIn): [Animal!]! buddies: [Human!]! }
input PetIn { kinds: [Kind!] name: String }
type Animal { name: String! owner: Human! kind: Kind }
enum Kind { CAT DOG }
type Query { node(id: ID!): Node getAnimals: [Animal!]! phoneCount(first: Int): Int }
type Mutation { savePhone(p: String!): Human! }
`

// three services extending one Node type
const vSC = `
interface Node { id: ID! }
type Human implements Node { id: ID! email: String badge: Badge }
type Badge { code: Int label: String tags: [String!]! }
type Query { node(id: ID!): Node }
`

type vLazyRefs struct{ name string }
type vLazyRef struct{ name string }

// vPick resolves the lazily chosen parts of the world the first time they are looked at, so that
// only what an operation touches multiplies the case split.
var vMinLen = 0

func vPickRefs(name string, k int) []vRef {
	n := vMinLen + verifChoice(name+".len", k+1-vMinLen)
	l := make([]vRef, n)
	for i := range l {
		if verifChoice(name+"."+verifItoa(i), 2) == 0 {
			l[i] = vRef{"Human", "h1"}
		} else {
			l[i] = vRef{"Human", "h2"}
		}
	}
	return l
}

func vReadmeWorld(k int) *vWorld {
	w := &vWorld{ents: map[string]vEnt{}, roots: map[string]interface{}{}}
	w.ents["h1"] = vEnt{"__typename": "Human", "id": "h1", "friends": vLazyRefs{"h1.friends"}, "best": vLazyRef{"h1.best"}, "pets": []vRef{{"Animal", "a1"}},
		"age": verifInt("h1_age", 0, 99), "badge": vRef{"Badge", "b1"}}
	w.ents["h2"] = vEnt{"__typename": "Human", "id": "h2", "friends": []vRef{}, "best": nil, "pets": []vRef{}, "age": nil, "badge": nil}
	if vMinLen > 0 {
		w.ents["h2"] = vEnt{"__typename": "Human", "id": "h2", "friends": []vRef{{"Human", "h1"}}, "best": vRef{"Human", "h1"}, "pets": []vRef{{"Animal", "a1"}}, "age": nil, "badge": vRef{"Badge", "b1"}}
	}
	w.ents["a1"] = vEnt{"__typename": "Animal", "id": "a1", "owner": vRef{"Human", "h1"}, "kind": "CAT"}
	w.ents["b1"] = vEnt{"__typename": "Badge", "id": "b1", "code": verifInt("b1_code", 0, 9), "tags": []interface{}{"red", "green"}}
	for _, hid := range []string{"h1", "h2"} {
		w.ents[hid]["buddies"] = []vRef{{"Human", "h1"}}
	}
	w.roots["Query.getHumans"] = vLazyRefs{"getHumans"}
	w.roots["Query.me"] = vLazyRef{"me"}
	w.roots["Query.findHumans"] = []vRef{{"Human", "h1"}}
	w.roots["Query.maybe"] = []interface{}{vRef{"Human", "h1"}, nil, vRef{"Human", "h2"}}
	w.roots["Query.nobody"] = []interface{}{nil, nil}
	w.roots["Query.must"] = nil
	w.roots["Query.getAnimals"] = []vRef{{"Animal", "a1"}}
	w.roots["Mutation.saveHuman"] = vRef{"Human", "h2"}
	w.roots["Mutation.savePhone"] = vRef{"Human", "h1"}
	w.ents["p1"] = vEnt{"__typename": "SavePayload", "id": "p1", "human": vRef{"Human", "h2"}, "query": vRootRef("Query")}
	w.roots["Mutation.saveBoth"] = vRef{"SavePayload", "p1"}
	w.ents["r1"] = vEnt{"__typename": "Robot", "id": "r1"}
	return w
}

type vOp struct {
	q      string
	vars   func() map[string]interface{}
	known  string // known-finding class of this operation on the pinned tree ("" = expected to hold)
	noNode bool   // operation uses the root `node` field (absent under the node-hiding merger)
	known13 string // recorded C13 finding about the data of this operation ("" = none)
	sparse  bool   // by construction nothing reaches the dependent steps (lists of nulls): no coverage obligations
	opName string
	fails  bool // the services' data makes this operation fail (a null for a non-null field): compared with the plain planner's answer
}

func vReadmeOps() []vOp {
	return []vOp{
		{q: `{ getHumans { name phone } }`},
		{q: `{ getHumans { id name friends { phone friends { name phone } } } }`},
		{q: `{ me { best { phone age } } }`},
		{q: `{ getAnimals { name kind owner { name phone pets { name owner { name } } } } }`},
		{q: `query($u: Boolean, $c: Int) { me { name(upper: $u) phone(cc: $c) } }`, vars: func() map[string]interface{} {
			return map[string]interface{}{"u": verifBool("var_u"), "c": verifInt("var_c", 0, 9)}
		}},
		{q: `{ me { ...F } } fragment F on Human { phone name }`},
		{q: `{ node(id: "h1") { ... on Human { name phone } } }`, noNode: true},
		{q: `{ a: me { n: name p: phone } b: me { phone } }`},
		{q: `mutation { saveHuman(name: "x") { name phone } }`},
		{q: `{ getHumans { friends { phone } } }`},
		{q: `{ me { phone(cc: 3) age } }`},
		{q: `query Q($id: ID!) { node(id: $id) { ... on Human { phone age } } }`, noNode: true, opName: "Q", vars: func() map[string]interface{} {
			return map[string]interface{}{"id": []string{"h1", "h2", "zz"}[verifChoice("var_id", 3)]}
		}},
		{q: `mutation { saveHuman(name: "x") { name } savePhone(p: "1") { phone name } }`},
		{q: `{ me { email badge { code } phone } }`},
		{q: `{ getHumans { badge { code label } friends { email } } }`},
		{q: `{ me { best { phone } phone } }`},
		{q: `{ me { phone } }`},
		{q: `{ me { id phone } }`},
		{q: `{ getHumans { friends { phone name } phone } }`},
		{q: `query($u: Boolean = true) { me { name(upper: $u) phone } }`},
		{q: `query($s: Boolean!) { me { name phone @skip(if: $s) } }`, vars: func() map[string]interface{} { return map[string]interface{}{"s": verifChoice("var_s", 2) == 1} }},
		{q: `query($s: Boolean!) { me { name ... on Human @include(if: $s) { phone } } }`, vars: func() map[string]interface{} { return map[string]interface{}{"s": verifChoice("var_s", 2) == 1} }},
		{q: `query($s: Boolean!) { me { name ...F @skip(if: $s) } } fragment F on Human { phone age }`, vars: func() map[string]interface{} { return map[string]interface{}{"s": verifChoice("var_s", 2) == 1} }},
		{q: `query($s: Boolean!) { getHumans { name friends @include(if: $s) { phone } } }`, vars: func() map[string]interface{} { return map[string]interface{}{"s": verifChoice("var_s", 2) == 1} }},
		{q: `{ node(id: "h1") { id } }`, noNode: true, known: "node-without-fragment"},
		{q: `{ __typename me { phone } }`},
		{q: `mutation { __typename saveHuman(name: "x") { name phone } }`},
		{q: `{ t: __typename }`},
		// lists and objects given for a custom scalar, with client variables inside
		{q: `query($v: Int, $w: String) { me { tag(meta: [$v, {k: [$w]}]) phone } }`, vars: func() map[string]interface{} {
			return map[string]interface{}{"v": verifInt("var_v", 0, 9), "w": "ww"}
		}},
		{q: `query($j: JSON) { me { tag(meta: $j) phone } }`, vars: func() map[string]interface{} {
			return map[string]interface{}{"j": map[string]interface{}{"a": []interface{}{1, "x"}}}
		}},
		// lists whose entries may be null
		{q: `{ maybe { name } }`},
		{q: `{ maybe { name phone } }`},
		{q: `{ nobody { name } me { name } }`},
		{q: `{ nobody { phone } }`, sparse: true},
		// a field name that occurs further down in an earlier sibling (the executor looks selections up by name)
		{q: `{ me { best { friends { name } } friends { best { phone } } } }`},
		{q: `{ getAnimals { owner { pets { name } } name } getHumans { pets { owner { email } } } }`},
		// introspection fields next to ordinary ones
		{q: `{ __schema { queryType { name } } me { name phone } }`},
		{q: `{ me { phone } __type(name: "Human") { name } }`},
		// id selected by the client next to a fragment on the same object
		{q: `{ me { id ...F } } fragment F on Human { name phone }`},
		{q: `{ getHumans { ... on Human { phone friends { ...G id } } id } } fragment G on Human { phone }`},
		// the same object field selected twice: the selections merge
		{q: `{ me { best { name } best { phone } } }`},
		{q: `{ me { best { id } b: best { name } best { phone } b: best { phone } } }`},
		{q: `{ getHumans { friends { name } friends { phone friends { name } } } me { phone } me { name } }`},
		// a depth-1 step answered for several entities, each with dependants on two other services
		{q: `{ getHumans { pets { owner { name email } } } }`},
		// client variables inside object and list literals that are themselves list elements
		{q: `query($n: String, $l: String, $x: Int) { findHumans(filter: [{name: $n, tags: [{label: $l, weight: $x}]}], grid: [[1, $x], [$x]]) { name phone } }`, vars: func() map[string]interface{} {
			return map[string]interface{}{"n": "nn", "l": "ll", "x": verifInt("var_x", 0, 9)}
		}},
		// an explicit null is a value: the declared default does not replace it
		{q: `query($c: Int = 4, $u: Boolean = true) { me { phone(cc: $c) name(upper: $u) } }`, vars: func() map[string]interface{} { return map[string]interface{}{"c": nil} }},
		// one variable used at a nullable and at a non-null position
		{q: `query($c: Int!) { me { phone(cc: $c) fax(cc: $c) } }`, vars: func() map[string]interface{} { return map[string]interface{}{"c": verifInt("var_c", 0, 9)} }},
		{q: `query($c: Int!) { me { fax(cc: $c) phone(cc: $c) best { phone(cc: $c) } } }`, vars: func() map[string]interface{} { return map[string]interface{}{"c": verifInt("var_c", 0, 9)} }},
		// a variable argument after an object / list literal argument of the same field
		{q: `query($k: Int) { findHumans(filter: [{name: "lit"}], grid: [[1]], first: $k) { name phone } }`, vars: func() map[string]interface{} {
			return map[string]interface{}{"k": verifInt("var_k", 0, 9)}
		}},
		{q: `query($c: Int = 4) { me { phone(cc: $c) } }`, vars: func() map[string]interface{} { return map[string]interface{}{"c": verifInt("var_c", 0, 9)} }},
		// a payload that hands out the Query type again (the Relay convention): what is read through it at
		// another service is a plain follow-up query inserted below the payload
		{q: `mutation Both($k: Int) { saveBoth(name: "x") { human { name phone } query { me { name phone } phoneCount(first: $k) } } }`, opName: "Both", vars: func() map[string]interface{} {
			return map[string]interface{}{"k": verifInt("var_k", 0, 9)}
		}},
		{q: `mutation { saveBoth(name: "x") { query { phoneCount getAnimals { name } } } }`},
		// response keys that look like the helpers the gateway uses itself
		{q: `{ me { node: best { name phone } } }`},
		{q: `{ me { x: name name phone } }`},
		{q: `{ me { ...F } getHumans { ...F } } fragment F on Human { name phone }`},
		{q: `{ me { x: id phone } }`},
		{q: `{ me { id: name phone } }`, known: "response-key-id-taken"},
		{q: `{ me { t: __typename phone } }`},
		{q: `{ getHumans { ...F friends { ...F } } } fragment F on Human { phone name }`},
		// client variables inside a list / input object literal of a field that is planned into a dependent step
		{q: `query($k: Kind!, $n: String) { me { name pets(where: {kinds: [CAT, $k], name: $n}) { name } } }`, vars: func() map[string]interface{} {
			return map[string]interface{}{"k": "DOG", "n": "rex"}
		}},
		// one fragment below root fields of two services, with a field that is merged into an existing step
		// and selects something of a third service
		{q: `{ me { ...F } getAnimals { owner { ...F } } } fragment F on Human { phone pets { owner { email } } }`},
		// an entity met several times on one level, completed with a list of entities that are completed in
		// turn with an object holding a list of scalars (the fanned-out copies must not share anything)
		{q: `{ getHumans { buddies { name badge { tags } } } }`},
		// a node lookup with a fragment on one type, for an entity of that or of another type
		{q: `query($id: ID!) { node(id: $id) { ...F } } fragment F on Robot { name }`, noNode: true, vars: func() map[string]interface{} {
			return map[string]interface{}{"id": []string{"h1", "r1"}[verifChoice("var_id", 2)]}
		}},
		{q: `query($id: ID!) { node(id: $id) { ...F } } fragment F on Human { name phone }`, noNode: true, vars: func() map[string]interface{} {
			return map[string]interface{}{"id": []string{"h1", "r1"}[verifChoice("var_id", 2)]}
		}},
		// more of the same family, reported by sub-agents of round 6
		{q: `{ me { node: pets { owner { name } } } }`},
		{q: `{ a: me { ...F } b: me { ...F } } fragment F on Human { best { phone } }`},
		{q: `{ me { name } ... on Query { me { phone } } }`},
		{q: `{ me { ...A ...B } } fragment A on Human { best { name } } fragment B on Human { best { phone } }`},
		{q: `query($l: [HumanIn!] = []) { findHumans(filter: $l) { name phone } }`},
	}
}

func vResolveLazy(w *vWorld, k int) {
	// lazily chosen relations are resolved on first use by vLookup
}

var vK = 2

// vProp is the property the current kernel runs for (known-finding ids are per property)
var vProp = "C01"

// vLookup is called by the evaluator for every raw value; it resolves lazy parts of the world
func vLookup(w *vWorld, holder map[string]interface{}, key string, raw interface{}) interface{} {
	switch l := raw.(type) {
	case vLazyRefs:
		v := vPickRefs(l.name, vK)
		holder[key] = v
		return v
	case vLazyRef:
		var v interface{}
		if vMinLen > 0 || verifChoice(l.name+".null", 2) == 0 {
			if l.name == "me" {
				v = vRef{"Human", "h1"}
			} else {
				v = vRef{"Human", "h2"}
			}
		}
		holder[key] = v
		return v
	case vLazyPets:
		v := vPickPets(l.name, vK)
		holder[key] = v
		return v
	}
	return raw
}

func vExactHint(id interface{}) (string, bool) {
	s, _ := id.(string)
	switch {
	case strings.HasPrefix(s, "h"):
		return "Human", true
	case strings.HasPrefix(s, "a"):
		return "Animal", true
	}
	return "", false
}

type vConfig struct {
	name     string
	opts     func() []GatewayOption
	hideNode bool
	cached   bool
}

func vConfigs() []vConfig {
	sanit := func() GatewayOption { var m merger.SanitizeNodeMergerFunc; return WithMerger(m) }
	return []vConfig{
		{name: "default", opts: func() []GatewayOption { return nil }},
		{name: "hint", opts: func() []GatewayOption { return []GatewayOption{WithGetParentTypeFromIDFunc(vExactHint)} }},
		{name: "hidenode", hideNode: true, opts: func() []GatewayOption { return []GatewayOption{sanit()} }},
		{name: "cached", cached: true, opts: func() []GatewayOption {
			return []GatewayOption{WithPlanner(planner.NewCachedPlanner(1000000000))}
		}},
		{name: "cached+hint+hidenode", cached: true, hideNode: true, opts: func() []GatewayOption {
			return []GatewayOption{WithPlanner(planner.NewCachedPlanner(1000000000)), WithGetParentTypeFromIDFunc(vExactHint), sanit()}
		}},
	}
}

// vCheckOne sends op to a fresh federation under cfg and asserts data == reference, errors empty
func vCheckOne(w *vWorld, cfg vConfig, op vOp, vars map[string]interface{}, sdls []string) *vFed {
	f := vNewFed(w, cfg.opts(), sdls...)
	rounds := 1
	if cfg.cached {
		rounds = 2
	}
	for r := 0; r < rounds; r++ {
		f.log = nil
		code, out := f.vPost(op.q, vars, op.opName)
		exp, valid := f.vReference(op.q, vars, op.opName)
		verifAssert(valid, "scenario operation is valid against the gateway schema")
		verifAssert(code == 200, "status 200 for a decodable request")
		errs, hasErrs := out["errors"]
		if hasErrs && errs != nil {
			if el, ok := errs.([]interface{}); ok && len(el) > 0 {
				if em, ok := el[0].(map[string]interface{}); ok {
					if ms, ok := em["message"].(string); ok {
						verifLog("first error: " + ms)
					}
				}
			}
			if f.broken != "" {
				verifLog("rejected sub-request: " + f.broken)
			}
		}
		verifAssert(!hasErrs || errs == nil, "errors is empty for a valid operation on healthy services ["+cfg.name+"]")
		verifAssert(f.broken == "", "every sub-request is valid for the service it is sent to ["+cfg.name+"]")
		data, _ := out["data"].(map[string]interface{})
		verifAssert(data != nil, "data is present")
		if data != nil {
			// introspection fields selected next to ordinary ones are answered by the gateway itself
			// (their content is the subject of C16): here they only have to be there
			for k := range exp {
				if len(k) > 2 && k[:2] == "__" && k != "__typename" {
					verifAssert(data[k] != nil, "introspection fields next to ordinary fields are answered: "+k)
					delete(exp, k)
					delete(data, k)
				}
			}
			vPrune(data)
			vAssertSame("", data, exp)
		}
	}
	return f
}

func VerifPipeline() {
	vK = verifParam("k", 2)
	ops := vReadmeOps()
	if only := verifParam("onlyop", -1); only >= 0 {
		ops = ops[only : only+1]
	}
	nops := verifParam("ops", len(ops))
	if nops > len(ops) {
		nops = len(ops)
	}
	op := ops[verifChoice("op", nops)]
	verifLog("op: " + op.q)
	var vars map[string]interface{}
	if op.vars != nil {
		vars = op.vars()
	}
	if op.known != "" {
		verifKnown(vProp+"-"+op.known, true)
	}
	sdls := []string{vSA, vSB}
	if verifParam("three", 1) == 1 {
		sdls = append(sdls, vSC)
	}
	w := vReadmeWorld(vK)
	for _, cfg := range vConfigs() {
		if cfg.hideNode && op.noNode {
			continue
		}
		vCheckOne(w, cfg, op, vars, sdls)
	}
	verifReach("pipeline completed")
}

// ---- scenario 2: interface and union spread over two services ----

const vSC1 = `
interface Node { id: ID! }
interface Pet { id: ID! name: String! nick(short: Boolean): String }
interface Toyed { id: ID! }
type Cat implements Node & Pet & Toyed { id: ID! name: String! nick(short: Boolean): String lives: Int }
type Dog implements Node & Pet & Toyed { id: ID! name: String! nick(short: Boolean): String bark: String }
union Thing = Cat | Dog
type Query { node(id: ID!): Node pets: [Pet!]! things: [Thing!]! ping: String toyed: [Toyed!]! }
type Mutation { ping: String }
`
const vSC2 = `
interface Node { id: ID! }
interface Toyed { id: ID! toy: String gear: [Gear!]! }
type Cat implements Node & Toyed { id: ID! toy: String gear: [Gear!]! }
type Dog implements Node & Toyed { id: ID! bone: String toy: String gear: [Gear!]! }
type Gear implements Node { id: ID! label: String }
type Query { node(id: ID!): Node pong: String }
`

// a third service that extends what the second one hands out
const vSC3 = `
interface Node { id: ID! }
type Gear implements Node { id: ID! weight: Int }
type Query { node(id: ID!): Node }
`

// vBothPets: abstract lists hold one member of every type (kernels that need every child step issued)
var vBothPets = false

func vPickPets(name string, k int) []vRef {
	if vBothPets {
		return []vRef{{"Cat", "c1"}, {"Dog", "d1"}}
	}
	n := vMinLen + verifChoice(name+".len", k+1-vMinLen)
	l := make([]vRef, n)
	for i := range l {
		if verifChoice(name+"."+verifItoa(i), 2) == 0 {
			l[i] = vRef{"Cat", "c1"}
		} else {
			l[i] = vRef{"Dog", "d1"}
		}
	}
	return l
}

type vLazyPets struct{ name string }

func vAbstractWorld() *vWorld {
	w := &vWorld{ents: map[string]vEnt{}, roots: map[string]interface{}{}}
	w.ents["c1"] = vEnt{"__typename": "Cat", "id": "c1", "lives": verifInt("c1_lives", 0, 9)}
	w.ents["d1"] = vEnt{"__typename": "Dog", "id": "d1"}
	w.roots["Query.pets"] = vLazyPets{"pets"}
	w.roots["Query.things"] = vLazyPets{"things"}
	w.roots["Query.toyed"] = vLazyPets{"toyed"}
	w.ents["g1"] = vEnt{"__typename": "Gear", "id": "g1"}
	w.ents["c1"]["gear"] = []vRef{{"Gear", "g1"}}
	w.ents["g2"] = vEnt{"__typename": "Gear", "id": "g2"}
	w.ents["d1"]["gear"] = []vRef{{"Gear", "g2"}}
	return w
}

func vAbstractHint(id interface{}) (string, bool) {
	s, _ := id.(string)
	switch {
	case strings.HasPrefix(s, "c"):
		return "Cat", true
	case strings.HasPrefix(s, "d"):
		return "Dog", true
	}
	return "", false
}

func vAbstractOps() []vOp {
	return []vOp{
		{q: `{ pets { name } }`},
		{q: `{ pets { ... on Cat { toy } ... on Dog { bone bark } } }`},
		// an interface whose fields live at another service than the field that returns it: the planner
		// walks the selection once per possible type
		{q: `{ toyed { toy gear { label } } }`},
		{q: `{ toyed { toy gear { label } spare: gear { label weight } } }`},
		{q: `{ things { ... on Cat { toy name lives } ... on Dog { bone } } }`},
		{q: `{ ping pong }`},
		{q: `{ things { ... on Cat { id } } }`},
		{q: `mutation { ping }`},
		// one field twice under different aliases, on an interface whose implementations span two services
		{q: `{ pets { ... on Cat { toy s: nick(short: true) l: nick(short: false) } ... on Dog { bone s: nick(short: true) } } }`},
		{q: `query($s: Boolean!) { pets { ... on Cat @include(if: $s) { toy } ... on Dog { bone } } }`, vars: func() map[string]interface{} { return map[string]interface{}{"s": verifChoice("var_s", 2) == 1} }},
		// node lookup with several fragments, one of them id-only on a type that two services declare
		{q: `{ node(id: "c1") { ... on Cat { name toy } ... on Dog { id } } }`},
		{q: `{ node(id: "d1") { __typename ... on Cat { name toy } ... on Dog { id bone } } }`},
		{q: `{ pets { name ... on Cat { toy lives } } }`, known: "abs-interface-field-plus-fragment"},
		{q: `{ pets { id ... on Cat { toy } } }`},
		{q: `{ pets { myid: id ... on Cat { toy } ... on Dog { bone } } }`},
		{q: `{ things { ... on Cat { id toy } ... on Dog { bone } } }`},
		{q: `{ things { __typename ... on Cat { toy } } }`},
		{q: `{ things { ... on Dog { bone bark } } }`},
		{q: `{ pets { ... on Cat { toy } } }`, known: "abs-fragment-on-one-implementer"},
		{q: `{ pets { ... on Pet { name } } }`, known: "abs-fragment-on-interface"},
	}
}

func VerifPipelineAbstract() {
	vK = verifParam("k", 2)
	ops := vAbstractOps()
	if only := verifParam("onlyop", -1); only >= 0 {
		ops = ops[only : only+1]
	}
	op := ops[verifChoice("op", len(ops))]
	verifLog("op: " + op.q)
	if op.known != "" {
		verifKnown(vProp+"-"+op.known, true)
	}
	w := vAbstractWorld()
	for _, cfg := range []vConfig{
		{name: "default", opts: func() []GatewayOption { return nil }},
		{name: "hint", opts: func() []GatewayOption { return []GatewayOption{WithGetParentTypeFromIDFunc(vAbstractHint)} }},
	} {
		vCheckOne(w, cfg, op, nil, []string{vSC1, vSC2, vSC3})
	}
	verifReach("pipeline completed")
}

// ---- scenario 2b: member types whose names differ by case only ----

const vSE1 = `
interface Node { id: ID! }
type Ebook implements Node { id: ID! title: String }
type EBook implements Node { id: ID! title: String }
union Item = Ebook | EBook
type Query { node(id: ID!): Node items: [Item!]! }
`
const vSE2 = `
interface Node { id: ID! }
type Ebook implements Node { id: ID! pages: Int }
type EBook implements Node { id: ID! size: Int }
type Query { node(id: ID!): Node }
`

func vTwinsWorld() *vWorld {
	w := &vWorld{ents: map[string]vEnt{}, roots: map[string]interface{}{}}
	w.ents["e1"] = vEnt{"__typename": "Ebook", "id": "e1", "pages": verifInt("e1_pages", 0, 9)}
	w.ents["f1"] = vEnt{"__typename": "EBook", "id": "f1"}
	w.roots["Query.items"] = []vRef{{"Ebook", "e1"}, {"EBook", "f1"}}
	return w
}

func vTwinsOps() []vOp {
	return []vOp{
		{q: `{ items { ... on Ebook { id title pages } ... on EBook { title size } } }`},
		{q: `{ items { ... on Ebook { title pages } ... on EBook { id size } } }`},
		// lists the gateway sorts by name, with names that differ by case only
		{q: `{ __schema { types { name kind } } }`},
		{q: `{ __schema { types { kind description } directives { n: name } } }`},
	}
}

// ---- scenario 3: deep object chains and snake_case paths (insertion-point slices with spare
// capacity, later sibling object fields, joined-path collisions) ----

const vSD1 = `
interface Node { id: ID! }
type Item implements Node { id: ID! label: String }
type Aisle { left: Item right: Item items: [Item!]! }
type Floor { aisle: Aisle name: String }
type Shop { floor: Floor annex: Floor }
type OI { product: Item }
type O { item_product: Item }
type Query { node(id: ID!): Node shop: Shop order_item: OI order: O }
`
const vSD2 = `
interface Node { id: ID! }
type Item implements Node { id: ID! stock: Int price: Int }
type Query { node(id: ID!): Node }
`

func vDeepWorld() *vWorld {
	w := &vWorld{ents: map[string]vEnt{}, roots: map[string]interface{}{}}
	for _, id := range []string{"i1", "i2", "i3"} {
		w.ents[id] = vEnt{"__typename": "Item", "id": id, "stock": verifInt(id+"_stock", 0, 9)}
	}
	aisle := vEnt{"__typename": "Aisle", "id": "aisle", "left": vRef{"Item", "i1"}, "right": vRef{"Item", "i2"}, "items": []vRef{{"Item", "i3"}, {"Item", "i1"}}}
	w.ents["aisle"] = aisle
	w.ents["floor"] = vEnt{"__typename": "Floor", "id": "floor", "aisle": vRef{"Aisle", "aisle"}}
	w.ents["annex"] = vEnt{"__typename": "Floor", "id": "annex", "aisle": vRef{"Aisle", "aisle"}}
	w.ents["shop"] = vEnt{"__typename": "Shop", "id": "shop", "floor": vRef{"Floor", "floor"}, "annex": vRef{"Floor", "annex"}}
	w.ents["oi"] = vEnt{"__typename": "OI", "id": "oi", "product": vRef{"Item", "i1"}}
	w.ents["o"] = vEnt{"__typename": "O", "id": "o", "item_product": vRef{"Item", "i2"}}
	w.roots["Query.shop"] = vRef{"Shop", "shop"}
	w.roots["Query.order_item"] = vRef{"OI", "oi"}
	w.roots["Query.order"] = vRef{"O", "o"}
	return w
}

func vDeepOps() []vOp {
	return []vOp{
		{q: `{ shop { floor { aisle { left { label stock } right { label stock } } } } }`},
		{q: `{ shop { floor { aisle { left { stock } items { label price } right { stock } } name } annex { aisle { right { stock } left { label } } } } }`},
		{q: `{ order_item { product { label price } } order { item_product { label price } } }`},
		{q: `{ a: shop { floor { aisle { left { stock } } } } b: shop { annex { aisle { left { stock } right { price } } } } }`},
	}
}

func VerifPipelineDeep() {
	ops := vDeepOps()
	op := ops[verifChoice("op", len(ops))]
	verifLog("op: " + op.q)
	w := vDeepWorld()
	for _, cfg := range vConfigs()[:2] {
		vCheckOne(w, cfg, op, nil, []string{vSD1, vSD2})
	}
	verifReach("pipeline completed")
}

// ---- scenario 4: one entity under two response paths (de-duplicated lookups fanned out to both), a
// client variable called id, a second hop ----

const vSR1 = `
interface Node { id: ID! }
type User implements Node { id: ID! name: String! }
type Query { node(id: ID!): Node me: User user(id: ID!): User }
`
const vSR2 = `
interface Node { id: ID! }
type User implements Node { id: ID! reviews: [Review!]! }
type Review implements Node { id: ID! body: String! author: User! }
type Query { node(id: ID!): Node }
`
const vSR3 = `
interface Node { id: ID! }
type Review implements Node { id: ID! stars: Int }
type Query { node(id: ID!): Node }
`

func vReviewsWorld() *vWorld {
	w := &vWorld{ents: map[string]vEnt{}, roots: map[string]interface{}{}}
	w.ents["u1"] = vEnt{"__typename": "User", "id": "u1", "reviews": []vRef{{"Review", "r1"}, {"Review", "r2"}}}
	w.ents["u2"] = vEnt{"__typename": "User", "id": "u2", "reviews": []vRef{}}
	w.ents["r1"] = vEnt{"__typename": "Review", "id": "r1", "author": vRef{"User", "u2"}, "stars": verifInt("r1_stars", 0, 5)}
	w.ents["r2"] = vEnt{"__typename": "Review", "id": "r2", "author": vRef{"User", "u1"}, "stars": nil}
	w.roots["Query.me"] = vRef{"User", "u1"}
	w.roots["Query.user"] = vRef{"User", "u1"}
	return w
}

func vReviewsOps() []vOp {
	return []vOp{
		// identical lookups for both aliases; what happens to one copy of the answer must not show in the other
		{q: `{ a: me { reviews { body } } b: me { reviews { id body } } }`},
		{q: `{ a: me { reviews { body } } b: me { reviews { body stars } } }`},
		{q: `{ a: me { reviews { body author { name } } } b: me { reviews { body } } }`},
		// a client variable called id, and a second hop that completes another entity
		{q: `query($id: ID!) { user(id: $id) { name reviews { body author { name } } } }`, vars: func() map[string]interface{} { return map[string]interface{}{"id": "u1"} }},
		{q: `query($uid: ID!) { user(id: $uid) { name reviews { stars author { name reviews { body } } } } }`, vars: func() map[string]interface{} { return map[string]interface{}{"uid": "u1"} }},
	}
}

func VerifPipelineReviews() {
	ops := vReviewsOps()
	op := ops[verifChoice("op", len(ops))]
	verifLog("op: " + op.q)
	var vars map[string]interface{}
	if op.vars != nil {
		vars = op.vars()
	}
	w := vReviewsWorld()
	hint := func(id interface{}) (string, bool) {
		s, _ := id.(string)
		switch {
		case strings.HasPrefix(s, "u"):
			return "User", true
		case strings.HasPrefix(s, "r"):
			return "Review", true
		}
		return "", false
	}
	for _, cfg := range []vConfig{
		{name: "default", opts: func() []GatewayOption { return nil }},
		{name: "hint", opts: func() []GatewayOption { return []GatewayOption{WithGetParentTypeFromIDFunc(hint)} }},
	} {
		vCheckOne(w, cfg, op, vars, []string{vSR1, vSR2, vSR3})
	}
	verifReach("pipeline completed")
}
