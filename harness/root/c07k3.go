package pebbles

import (
	"encoding/json"

	"github.com/buildbuildio/pebbles/planner"
)

// C07-K3: syntactically valid but unusual operations through the real handler, planner and executor:
// the handler must return, answer 200 with one JSON document carrying data and/or errors, never panic in
// any goroutine (that would end the process), and serve the next request normally.

type vCorner struct {
	q      string
	vars   map[string]interface{}
	opName string
}

func vCornerOps() []vCorner {
	return []vCorner{
		{q: `{ __typename }`},
		{q: `{ node(id: "c1") { id } }`},
		{q: `{ node(id: "nope") { ... on Cat { toy } } }`},
		{q: `{ __type(name: "Mood") { enumValues(includeDeprecated: null) { name } fields(includeDeprecated: null) { name } } }`},
		{q: `query($d: Boolean) { __type(name: "Mood") { enumValues(includeDeprecated: $d) { name } } }`},
		{q: `query($d: Boolean) { __type(name: "Mood") { enumValues(includeDeprecated: $d) { name } } }`, vars: map[string]interface{}{"d": "yes"}},
		{q: `query($d: Boolean) { __type(name: "Cat") { fields(includeDeprecated: $d) { name } } }`, vars: map[string]interface{}{"d": 3}},
		{q: `{ __type(name: "Nope") { name fields { name } } }`},
		{q: `{ __schema { types { name possibleTypes { name } interfaces { name } inputFields { name } } directives { name args { name } } } }`},
		{q: `{ pets { ... on Node { id } } }`},
		{q: `{ things { ... on Node { id } } }`},
		{q: `{ pets(filter: {mood: GRUMPY, tags: []}) { name } }`},
		{q: `query($f: Filter) { pets(filter: $f) { name } }`, vars: map[string]interface{}{"f": map[string]interface{}{"tags": nil}}},
		{q: `mutation { adopt(id: "c1") { toy name } }`},
		{q: `{ today pets { __typename } }`},
		// an interface nobody implements; a fragment without type condition
		{q: `{ lonely { id } }`},
		{q: `{ things { ... { __typename } } }`},
		{q: `{ __schema { types { name: kind } directives { name: locations } } }`},
		// operations the gateway cannot select
		{q: `query A { today } query B { today }`},
		{q: `query A { today }`, opName: "Nope"},
		{q: `{ today }`, opName: "A"},
		// values of a custom scalar may be lists and objects, with variables inside
		{q: `query($v: Int) { search(meta: [$v]) }`, vars: map[string]interface{}{"v": 1}},
		{q: `query($v: Int) { search(meta: {k: $v}) }`, vars: map[string]interface{}{"v": 1}},
		{q: `{ search(meta: [1, {a: [2]}]) }`},
		{q: `query($v: JSON) { search(meta: $v) }`, vars: map[string]interface{}{"v": []interface{}{1, "x"}}},
		// very deep selections (GraphQL sets no limit): 8 and 70 levels in one step
		{q: vDeep(8)},
		{q: vDeep(70)},
		// documents without any operation (a comment, blanks, commas)
		{q: `# nothing`},
		{q: ` `},
		{q: `,,,`},
		{q: `# nothing`, opName: "A"},
		// one fragment definition spread at several places (the planner rewrites selections in place), with
		// fragments on the interface / union itself and without type condition inside
		{q: `{ ...Q ...Q } fragment Q on Query { pets { ... on Pet { name } } }`},
		{q: `{ ...Q ... on Query { ...Q } } fragment Q on Query { pets { ... { name } } things { ... on Thing { ... on Cat { toy } } } }`},
		{q: `{ ...Q ...Q } fragment Q on Query { things { ... on Thing { ... on Pet { name } } } }`},
		{q: `{ a: pets { ...P } b: pets { ...P } } fragment P on Pet { ... on Pet { name ... on Cat { toy } } }`},
	}
}

// vDeep: a selection nested n levels deep through a self-referencing type (one plan step)
func vDeep(n int) string {
	q := "{ tom { "
	for i := 0; i < n; i++ {
		q += "twin { "
	}
	q += "name toy"
	for i := 0; i < n; i++ {
		q += " }"
	}
	return q + " } }"
}

func VerifHandlerCorners() {
	vK = 1
	vMinLen = 1
	w := vAbstractWorld()
	w.roots["Query.tom"] = vRef{"Cat", "c1"}
	w.ents["c1"]["twin"] = vRef{"Cat", "c1"}
	// with the plain planner, or with the caching planner (then every operation is sent twice: the
	// second time it is served from the cache, and the request after it is planned afresh)
	cached := verifChoice("planner", 2) == 1
	var opts []GatewayOption
	if cached {
		opts = append(opts, WithPlanner(planner.NewCachedPlanner(1000000000)))
	}
	f := vNewFed(w, opts, vS16A, vS16B)
	ops := vCornerOps()
	c := ops[verifChoice("op", len(ops))]
	verifLog("op: " + c.q)
	// alone, or as the first / second element of a batch next to an ordinary operation
	pos := verifChoice("pos", 3)
	one := map[string]interface{}{"query": c.q}
	if c.vars != nil {
		one["variables"] = c.vars
	}
	if c.opName != "" {
		one["operationName"] = c.opName
	}
	other := map[string]interface{}{"query": `{ today }`}
	var payload interface{} = one
	switch pos {
	case 1:
		payload = []interface{}{one, other}
	case 2:
		payload = []interface{}{other, one}
	}
	pb, _ := json.Marshal(payload)
	if cached {
		vPostRaw(f.gw, "application/json", pb)
		verifReach("corner operation served from the plan cache")
	}
	rec0 := vPostRaw(f.gw, "application/json", pb)
	verifAssert(rec0.code == 200, "a decodable request is answered with status 200")
	var elems []interface{}
	if pos == 0 {
		var out map[string]interface{}
		verifAssert(json.Unmarshal(rec0.body, &out) == nil, "the answer is one JSON object")
		elems = []interface{}{out}
	} else {
		verifAssert(json.Unmarshal(rec0.body, &elems) == nil && len(elems) == 2, "a batch of two is answered with an array of two")
		verifReach("corner operation inside a batch")
	}
	for i, e := range elems {
		out, _ := e.(map[string]interface{})
		verifAssert(out != nil, "every element of the answer is an object")
		if out == nil {
			continue
		}
		_, hasData := out["data"]
		_, hasErrs := out["errors"]
		verifAssert(hasData || hasErrs, "the answer carries data and/or errors")
		if pos != 0 && i == 2-pos {
			d, _ := out["data"].(map[string]interface{})
			verifAssert(d != nil && d["today"] != nil && out["errors"] == nil, "the ordinary operation of the batch is answered at its own position")
		}
	}
	// the process keeps serving
	b, _ := json.Marshal(map[string]interface{}{"query": `{ today }`})
	rec := vPostRaw(f.gw, "application/json", b)
	var next map[string]interface{}
	verifAssert(rec.code == 200 && json.Unmarshal(rec.body, &next) == nil, "the next request is served")
	verifReach("corner operation answered")
}
