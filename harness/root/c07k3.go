package pebbles

import (
	"encoding/json"
)

// C07-K3: syntactically valid but unusual operations through the real handler, planner and executor:
// the handler must return, answer 200 with one JSON document carrying data and/or errors, never panic in
// any goroutine (that would end the process), and serve the next request normally.

type vCorner struct {
	q    string
	vars map[string]interface{}
}

func vCornerOps() []vCorner {
	return []vCorner{
		{q: `{ __typename }`},
		{q: `{ node(id: "c1") { id } }`},
		{q: `{ node(id: "nope") { ... on Cat { toy } } }`},
		{q: `{ __type(name: "Mood") { enumValues(includeDeprecated: null) { name } fields(includeDeprecated: null) { name } } }`},
		{q: `query($d: Boolean) { __type(name: "Mood") { enumValues(includeDeprecated: $d) { name } } }`},
		{q: `query($d: Boolean) { __type(name: "Mood") { enumValues(includeDeprecated: $d) { name } } }`, vars: map[string]interface{}{"d": "yes"}},
		{q: `query($d: Boolean) { __type(name: "Cat") { fields(includeDeprecated: $d) { name } } }`, vars: map[string]interface{}{"d": 3}},
		{q: `{ __type(name: "Nope") { name fields { name } } }`},
		{q: `{ __schema { types { name possibleTypes { name } interfaces { name } inputFields { name } } directives { name args { name } } } }`},
		{q: `{ pets { ... on Node { id } } }`},
		{q: `{ things { ... on Node { id } } }`},
		{q: `{ pets(filter: {mood: GRUMPY, tags: []}) { name } }`},
		{q: `query($f: Filter) { pets(filter: $f) { name } }`, vars: map[string]interface{}{"f": map[string]interface{}{"tags": nil}}},
		{q: `mutation { adopt(id: "c1") { toy name } }`},
		{q: `{ today pets { __typename } }`},
	}
}

func VerifHandlerCorners() {
	vK = 1
	vMinLen = 1
	w := vAbstractWorld()
	f := vNewFed(w, nil, vS16A, vS16B)
	ops := vCornerOps()
	c := ops[verifChoice("op", len(ops))]
	verifLog("op: " + c.q)
	code, out := f.vPost(c.q, c.vars, "")
	verifAssert(code == 200, "a decodable request is answered with status 200")
	_, hasData := out["data"]
	_, hasErrs := out["errors"]
	verifAssert(hasData || hasErrs, "the answer carries data and/or errors")
	// the process keeps serving
	b, _ := json.Marshal(map[string]interface{}{"query": `{ today }`})
	rec := vPostRaw(f.gw, "application/json", b)
	var next map[string]interface{}
	verifAssert(rec.code == 200 && json.Unmarshal(rec.body, &next) == nil, "the next request is served")
	verifReach("corner operation answered")
}
