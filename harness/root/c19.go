package pebbles

import (
	"encoding/json"
	"net/http"
	"sync"

	"github.com/buildbuildio/pebbles/requests"
)

// C19: file uploads arrive at the owning service unchanged. Client side: requests.Parse (multipart
// branch) + injectFile; gateway: planner/executor; downstream: extractFiles / UploadMap / prepareMultipart /
// fetchFile through the multipart-writer model.

const vS19A = `
scalar Upload
input In { f: Upload! note: String }
input PhotoIn { file: Upload! }
input AlbumIn { title: String cover: Upload photos: [PhotoIn!] }
type Query { ping: String }
type Mutation { up(f: Upload!): String upIn(in: In!): String upMany(fs: [Upload!]!): String plain(x: Int): String upAlbum(input: AlbumIn!): String }
`
const vS19B = `
scalar Upload
type Query { pong: String }
type Mutation { other(f: Upload!): String label(tag: String): String }
`

type vRecvFile struct {
	url      string
	path     string // variables path named by the service-side map
	filename string
	content  string
	opQuery  string
	nullAt   bool // the operations document has null at that path
}

var vRecv []vRecvFile
var vPlainCalls []string // urls that received a plain JSON call
var vRecvMu sync.Mutex   // the services of one request are called from concurrent goroutines

func vPathGet(vars map[string]interface{}, path []string) (interface{}, bool) {
	var cur interface{} = vars
	for _, s := range path {
		switch x := cur.(type) {
		case map[string]interface{}:
			v, ok := x[s]
			if !ok {
				return nil, false
			}
			cur = v
		case []interface{}:
			i := 0
			for _, ch := range s {
				i = i*10 + int(ch-'0')
			}
			if i >= len(x) {
				return nil, false
			}
			cur = x[i]
		default:
			return nil, false
		}
	}
	return cur, true
}

func vSplitDots(s string) []string {
	var out []string
	cur := ""
	for _, ch := range s {
		if ch == '.' {
			out = append(out, cur)
			cur = ""
		} else {
			cur += string(ch)
		}
	}
	return append(out, cur)
}

// vMultipartService plays the downstream service for a multipart call
func vMultipartService(url string, req *http.Request) (*http.Response, bool) {
	mp := verifRequestMultipart(req)
	vRecvMu.Lock()
	defer vRecvMu.Unlock()
	if mp == nil {
		vPlainCalls = append(vPlainCalls, url)
		return nil, false
	}
	opsPart, _ := mp["operations"].(map[string]interface{})
	mapPart, _ := mp["map"].(map[string]interface{})
	verifAssert(opsPart != nil && mapPart != nil, "a multipart call carries operations and map")
	// a request with files has to survive what plain requests survive on the way to the service (a 307/308
	// redirect, a stale keep-alive connection): net/http can send a body again only through Request.GetBody
	verifAssert(req.GetBody != nil, "the multipart request can be sent again by the HTTP client (Request.GetBody is set)")
	var op requests.Request
	opsBytes, _ := opsPart["data"].([]byte)
	verifAssert(json.Unmarshal(opsBytes, &op) == nil, "operations is a JSON request")
	var fmap map[string][]string
	mapBytes, _ := mapPart["data"].([]byte)
	verifAssert(json.Unmarshal(mapBytes, &fmap) == nil, "map is a JSON object of path lists")
	for key, paths := range fmap {
		part, _ := mp[key].(map[string]interface{})
		verifAssert(part != nil, "every entry of the map has its file part")
		if part == nil {
			continue
		}
		fn, _ := part["filename"].(string)
		data, _ := part["data"].([]byte)
		for _, p := range paths {
			segs := vSplitDots(p)
			verifAssert(len(segs) >= 2 && segs[0] == "variables", "service-side paths go through variables")
			v, ok := vPathGet(op.Variables, segs[1:])
			vRecv = append(vRecv, vRecvFile{url: url, path: p, filename: fn, content: string(data), opQuery: op.Query, nullAt: ok && v == nil})
		}
	}
	b, _ := json.Marshal(map[string]interface{}{"data": map[string]interface{}{"up": "ok", "upIn": "ok", "upMany": "ok", "other": "ok", "upAlbum": "ok", "label": "ok"}})
	return &http.Response{StatusCode: 200, Body: &vBody{b}}, true
}

type vUpCase struct {
	query  string
	vars   string              // variables JSON with nulls at the file positions
	fmap   map[string][]string // client-side map: file key -> paths
	owners map[string][]string // file key -> services that must receive it
	known  string
}

func vUploadCases() []vUpCase {
	return []vUpCase{
		{query: `mutation($f: Upload!) { up(f: $f) }`, vars: `{"f": null}`, fmap: map[string][]string{"0": {"variables.f"}}, owners: map[string][]string{"0": {"svc0"}}},
		{query: `mutation($in: In!) { upIn(in: $in) }`, vars: `{"in": {"f": null, "note": "n"}}`, fmap: map[string][]string{"0": {"variables.in.f"}}, owners: map[string][]string{"0": {"svc0"}}},
		{query: `mutation($fs: [Upload!]!) { upMany(fs: $fs) }`, vars: `{"fs": [null, null]}`, fmap: map[string][]string{"0": {"variables.fs.0"}, "1": {"variables.fs.1"}}, owners: map[string][]string{"0": {"svc0"}, "1": {"svc0"}}},
		{query: `mutation($f: Upload!) { up(f: $f) other(f: $f) }`, vars: `{"f": null}`, fmap: map[string][]string{"0": {"variables.f"}}, owners: map[string][]string{"0": {"svc0", "svc1"}}, known: "C19-one-file-for-two-services"},
		{query: `mutation($f: Upload!, $x: Int) { other(f: $f) plain(x: $x) }`, vars: `{"f": null, "x": 3}`, fmap: map[string][]string{"0": {"variables.f"}}, owners: map[string][]string{"0": {"svc1"}}},
		{query: `mutation($fs: [Upload!]!) { upMany(fs: $fs) }`, vars: `{"fs": [null, null]}`, fmap: map[string][]string{"0": {"variables.fs.0", "variables.fs.1"}}, owners: map[string][]string{"0": {"svc0"}}},
		// eleven files: list index 10 sorts before index 2 as a string
		{query: `mutation($fs: [Upload!]!) { upMany(fs: $fs) }`, vars: `{"fs": [null, null, null, null, null, null, null, null, null, null, null]}`,
			fmap: map[string][]string{"0": {"variables.fs.0"}, "1": {"variables.fs.1"}, "2": {"variables.fs.2"}, "3": {"variables.fs.3"}, "4": {"variables.fs.4"}, "5": {"variables.fs.5"},
				"6": {"variables.fs.6"}, "7": {"variables.fs.7"}, "8": {"variables.fs.8"}, "9": {"variables.fs.9"}, "10": {"variables.fs.10"}},
			owners: map[string][]string{"0": {"svc0"}, "1": {"svc0"}, "2": {"svc0"}, "3": {"svc0"}, "4": {"svc0"}, "5": {"svc0"}, "6": {"svc0"}, "7": {"svc0"}, "8": {"svc0"}, "9": {"svc0"}, "10": {"svc0"}}},
		// a literal argument whose text equals the name of the upload variable
		{query: `mutation($f: Upload!) { up(f: $f) label(tag: "f") }`, vars: `{"f": null}`, fmap: map[string][]string{"0": {"variables.f"}}, owners: map[string][]string{"0": {"svc0"}}},
		// upload variables inside object literals inside a list literal inside an input object literal
		{query: `mutation($c: Upload, $a: Upload!, $b: Upload!) { upAlbum(input: {title: "t", cover: $c, photos: [{file: $a}, {file: $b}]}) }`, vars: `{"c": null, "a": null, "b": null}`,
			fmap:   map[string][]string{"0": {"variables.c"}, "1": {"variables.a"}, "2": {"variables.b"}},
			owners: map[string][]string{"0": {"svc0"}, "1": {"svc0"}, "2": {"svc0"}}},
		// two variables whose extraction order (map order) and path order may differ
		{query: `mutation($b: Upload!, $a: Upload!) { x: up(f: $b) y: up(f: $a) }`, vars: `{"b": null, "a": null}`, fmap: map[string][]string{"0": {"variables.b"}, "1": {"variables.a"}}, owners: map[string][]string{"0": {"svc0"}, "1": {"svc0"}}},
	}
}

func VerifUploads() {
	cases := vUploadCases()
	c := cases[verifChoice("case", len(cases))]
	verifLog("op: " + c.query)
	if c.known != "" {
		verifKnown(c.known, true)
	}
	batch := verifChoice("batch", 2) == 1
	f := vNewHTTPFed(&vWorld{ents: map[string]vEnt{}, roots: map[string]interface{}{}}, 3000, nil, vS19A, vS19B)
	vMultipartHookFn = vMultipartService
	vRecv, vPlainCalls = nil, nil

	ops := `{"query": ` + vQuote(c.query) + `, "variables": ` + c.vars + `}`
	cmap := map[string][]string{}
	for k, ps := range c.fmap {
		for _, p := range ps {
			if batch {
				p = "1." + p
			}
			cmap[k] = append(cmap[k], p)
		}
	}
	if batch {
		ops = `[{"query": "{ ping }"}, ` + ops + `]`
	}
	mapJSON, _ := json.Marshal(cmap)
	// different files may carry the same file name (two "image.png")
	sameName := len(c.fmap) > 1 && len(c.fmap) < 4 && verifChoice("samename", 2) == 1
	// file names may hold what a Content-Disposition header has to quote
	odd := len(c.fmap) < 4 && verifChoice("oddname", 2) == 1
	nameOf := func(k string) string {
		if sameName {
			return "image.png"
		}
		if odd {
			return `report "final" \` + k + `; v=2.txt`
		}
		return "file" + k + ".txt"
	}
	var keys, names, contents []string
	for k := range c.fmap {
		keys = append(keys, k)
		names = append(names, nameOf(k))
		contents = append(contents, "content-of-file-"+k)
	}
	req := &http.Request{Method: http.MethodPost, Header: http.Header{}, Body: &vBody{}}
	req.Header.Set("Content-Type", "multipart/form-data; boundary=x")
	verifSetMultipart(req, []string{"operations", "map"}, []string{ops, string(mapJSON)}, keys, names, contents)
	if len(c.fmap) < 4 && verifChoice("spilled", 2) == 1 {
		// files above ParseMultipartForm's memory limit live in temporary files: closing them is not a no-op
		verifSpillFiles(req)
	}
	rec := &vRecorder{}
	f.gw.Handler(rec, req)
	verifAssert(rec.code == 200, "a well-formed multipart request is accepted")
	var out interface{}
	verifAssert(json.Unmarshal(rec.body, &out) == nil, "the response is JSON")
	res, _ := out.(map[string]interface{})
	if batch {
		arr, _ := out.([]interface{})
		verifAssert(len(arr) == 2, "a batch of two operations is answered with two results")
		if len(arr) == 2 {
			res, _ = arr[1].(map[string]interface{})
		}
	}
	verifAssert(res != nil && res["errors"] == nil, "the operation executes without errors")

	for key, paths := range c.fmap {
		for _, owner := range c.owners[key] {
			for _, p := range paths {
				n := 0
				for _, r := range vRecv {
					if r.url == owner && r.path == p {
						n++
						verifAssert(r.filename == nameOf(key), "the part keeps its file name")
						verifAssert(r.content == "content-of-file-"+key, "the part keeps its bytes")
						verifAssert(r.nullAt, "the operations document has null where the file goes")
					}
				}
				verifAssert(n == 1, "the owning service receives the file at the path the map names: "+owner+" "+p)
			}
		}
	}
	for _, r := range vRecv {
		ok := false
		for key := range c.fmap {
			for _, o := range c.owners[key] {
				ok = ok || (o == r.url)
			}
		}
		verifAssert(ok, "services that do not use the variable receive no file")
	}
	if batch {
		verifReach("batched upload")
	} else {
		verifReach("single upload")
	}
}

func vQuote(s string) string {
	b, _ := json.Marshal(s)
	return string(b)
}
