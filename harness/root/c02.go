package pebbles

import (
	"encoding/json"
	"sort"

	"github.com/buildbuildio/pebbles/common"
	"github.com/buildbuildio/pebbles/planner"
	"github.com/buildbuildio/pebbles/requests"
	"github.com/vektah/gqlparser/v2"
	"github.com/vektah/gqlparser/v2/ast"
)

// ---------------- shared: run one operation through a federation without judging the data ----------------

type vScenario struct {
	sdls []string
	w    *vWorld
	ops  []vOp
	hint func(interface{}) (string, bool) // an id-to-type hint that is exact for this scenario's ids (nil: none)
}

func vPickScenario() (vScenario, vOp) {
	readme := vReadmeOps()
	abstract := vAbstractOps()
	twins := vTwinsOps()
	n := len(readme) + len(abstract) + len(twins)
	i := verifChoice("op", n)
	if only := verifParam("onlyop", -1); only >= 0 {
		verifAssume(i == only)
	}
	if i < len(readme) {
		verifLog("op: " + readme[i].q)
		return vScenario{[]string{vSA, vSB, vSC}, vReadmeWorld(vK), readme, vExactHint}, readme[i]
	}
	i -= len(readme)
	if i < len(abstract) {
		verifLog("op: " + abstract[i].q)
		return vScenario{[]string{vSC1, vSC2, vSC3}, vAbstractWorld(), abstract, vAbstractHint}, abstract[i]
	}
	i -= len(abstract)
	verifLog("op: " + twins[i].q)
	return vScenario{[]string{vSE1, vSE2}, vTwinsWorld(), twins, nil}, twins[i]
}

type vPair struct{ typ, field string }

// vSortedPairs: obligations are checked in a fixed order, so that the first one that fails does not
// depend on Go's map iteration order (the native replay of a path must end with the same message)
func vSortedPairs(m map[vPair]bool) []vPair {
	var out []vPair
	for p := range m {
		out = append(out, p)
	}
	sort.Slice(out, func(i, j int) bool {
		return out[i].typ < out[j].typ || (out[i].typ == out[j].typ && out[i].field < out[j].field)
	})
	return out
}

// vSelCount counts how many times every (parent type, field) pair is selected, through fragments
func vSelCount(ss ast.SelectionSet, out map[vPair]int) {
	for _, sel := range ss {
		switch s := sel.(type) {
		case *ast.Field:
			if s.ObjectDefinition != nil {
				out[vPair{s.ObjectDefinition.Name, s.Name}]++
			}
			vSelCount(s.SelectionSet, out)
		case *ast.InlineFragment:
			vSelCount(s.SelectionSet, out)
		case *ast.FragmentSpread:
			vSelCount(s.Definition.SelectionSet, out)
		}
	}
}

// vSelVars: when set, selections that @skip/@include exclude under these variable values do not count
// as selected (nothing has to be requested for them)
var vSelVars map[string]interface{}

// vSelected collects the (parent type, field) pairs an operation selects, through fragments
func vSelected(ss ast.SelectionSet, out map[vPair]bool) {
	for _, sel := range ss {
		switch s := sel.(type) {
		case *ast.Field:
			if vSelVars != nil && vSkip(s.Directives, vSelVars) {
				continue
			}
			if s.ObjectDefinition != nil {
				out[vPair{s.ObjectDefinition.Name, s.Name}] = true
			}
			vSelected(s.SelectionSet, out)
		case *ast.InlineFragment:
			if vSelVars != nil && vSkip(s.Directives, vSelVars) {
				continue
			}
			vSelected(s.SelectionSet, out)
		case *ast.FragmentSpread:
			if vSelVars != nil && vSkip(s.Directives, vSelVars) {
				continue
			}
			vSelected(s.Definition.SelectionSet, out)
		}
	}
}

func vUsedVars(ss ast.SelectionSet, out map[string]bool) {
	var val func(v *ast.Value)
	val = func(v *ast.Value) {
		if v == nil {
			return
		}
		if v.Kind == ast.Variable {
			out[v.Raw] = true
		}
		for _, c := range v.Children {
			val(c.Value)
		}
	}
	dirs := func(dl ast.DirectiveList) {
		for _, d := range dl {
			for _, a := range d.Arguments {
				val(a.Value)
			}
		}
	}
	for _, sel := range ss {
		switch s := sel.(type) {
		case *ast.Field:
			for _, a := range s.Arguments {
				val(a.Value)
			}
			dirs(s.Directives)
			vUsedVars(s.SelectionSet, out)
		case *ast.InlineFragment:
			dirs(s.Directives)
			vUsedVars(s.SelectionSet, out)
		case *ast.FragmentSpread:
			dirs(s.Directives)
			vUsedVars(s.Definition.SelectionSet, out)
		}
	}
}

// C02: every sub-request is valid for, and owned by, the service it is sent to
func VerifSubRequests() {
	vBothPets = true
	vProp = "C02"
	vK = verifParam("k", 1)
	vMinLen = 1 // child steps must actually be issued: the claim is per translation, independent of data
	sc, op := vPickScenario()
	if op.sparse {
		verifAssume(false) // nothing reaches the dependent steps of this operation: coverage cannot be observed
	}
	if op.known != "" {
		verifKnown(vProp+"-"+op.known, true)
	}
	var vars map[string]interface{}
	if op.vars != nil {
		vars = op.vars()
	}
	f := vNewFed(sc.w, nil, sc.sdls...)
	_, ans := f.vPost(op.q, vars, op.opName)
	// a field that is dropped for one of several entities (or implementations) shows in the answer
	if op.known == "" {
		if exp, valid := f.vReference(op.q, vars, op.opName); valid {
			if data, ok := ans["data"].(map[string]interface{}); ok && ans["errors"] == nil {
				for k := range exp {
					if len(k) > 2 && k[:2] == "__" && k != "__typename" {
						delete(exp, k)
						delete(data, k)
					}
				}
				vPrune(data)
				vAssertSame("", data, exp)
			}
		}
	}

	doc, derr := gqlparser.LoadQuery(f.gw.schema, op.q)
	verifAssert(derr == nil, "scenario operation is valid against the gateway schema")
	cop := doc.Operations[0]
	// client: what has to be requested (selections excluded by @skip/@include under the given values
	// do not count); clientAll: what may be requested (everything the operation names)
	client, clientAll := map[vPair]bool{}, map[vPair]bool{}
	clientVars := vVarsFor(cop, vars)
	vSelected(cop.SelectionSet, clientAll)
	vSelVars = clientVars
	if vSelVars == nil {
		vSelVars = map[string]interface{}{}
	}
	vSelected(cop.SelectionSet, client)
	vSelVars = nil

	verifAssert(f.broken == "", "every sub-request parses and validates against the schema of the service it is sent to")
	clientCount := map[vPair]int{}
	vSelCount(cop.SelectionSet, clientCount)
	subCount := map[vPair]int{}
	seenStep := map[string]bool{}
	covered := map[vPair]bool{}
	for _, sub := range f.log {
		svc := f.svcByURL(sub.url)
		verifAssert(svc != nil, "sub-requests go to known services only")
		if svc == nil {
			continue
		}
		sdoc, serr := gqlparser.LoadQuery(svc.schema, sub.query)
		if serr != nil {
			continue // already reported through f.broken
		}
		sop := sdoc.Operations[0]
		if sub.opn != "" {
			sop = sdoc.Operations.ForName(sub.opn)
		}
		used := map[string]bool{}
		vUsedVars(sop.SelectionSet, used)
		for v := range used {
			verifAssert(sop.VariableDefinitions.ForName(v) != nil, "every variable a sub-request uses is declared in it")
			if v == "id" && cop.VariableDefinitions.ForName("id") == nil {
				_, has := sub.vars["id"]
				verifAssert(has, "a node lookup carries its id")
				continue
			}
			if cv, has := clientVars[v]; has {
				sv, forwarded := sub.vars[v]
				verifAssert(forwarded, "the value (or client-declared default) of every used client variable accompanies the sub-request")
				if forwarded {
					vAssertSame(".variables."+v, vJSONNorm(sv), vJSONNorm(cv))
				}
			}
		}
		if !seenStep[sub.url+"|"+sub.query] {
			seenStep[sub.url+"|"+sub.query] = true
			vSelCount(sop.SelectionSet, subCount)
		}
		sel := map[vPair]bool{}
		vSelected(sop.SelectionSet, sel)
		for _, p := range vSortedPairs(sel) {
			covered[p] = true
			if !clientAll[p] && !vSelectedThroughAbstract(f.gw.schema, clientAll, p) {
				verifAssert(p.field == "id" || p.field == "__typename" || (p.typ == "Query" && p.field == "node"),
					"sub-requests add nothing but id/__typename helpers (and the node entry point)")
			}
		}
	}
	for _, p := range vSortedPairs(client) {
		if len(p.field) > 2 && p.field[:2] == "__" {
			continue // __typename, and the introspection fields the gateway answers itself
		}
		if len(p.typ) > 2 && p.typ[:2] == "__" {
			continue // selections inside an introspection field
		}
		if p.field == "id" {
			// id selected on an interface (or through Node) is requested per implementation, and the other
			// way round; that the client receives it where it asked for it is C01's obligation
			anyID := false
			for q := range covered {
				anyID = anyID || q.field == "id"
			}
			if anyID {
				continue
			}
		}
		if !covered[p] && vCoveredPerImplementation(f.gw.schema, covered, p) {
			continue // a field selected on an interface is requested per implementation
		}
		verifAssert(covered[p], "every client-selected field is requested from a service that declares it: "+p.typ+"."+p.field)
	}
	_, _ = clientCount, subCount
	// path-aware coverage on the plan itself: every client-selected response path is selected by the
	// step that is inserted at (a prefix of) that path
	doc2, _ := gqlparser.LoadQuery(f.gw.schema, op.q)
	var sp planner.SequentialPlanner
	plan, perr := sp.Plan(&planner.PlanningContext{Operation: doc2.Operations[0], Request: &requests.Request{Query: op.q, Variables: vars}, Schema: f.gw.schema, TypeURLMap: f.gw.typeURLMap})
	if perr == nil {
		// every planned step is a sub-request, whether or not the data lets execution reach it
		vPlannedStepsValid(f, plan.RootSteps, cop.Operation)
		planned := map[string]bool{}
		vStepPaths(plan.RootSteps, planned)
		wanted := map[string]bool{}
		vSelPaths(cop.SelectionSet, "", wanted)
		for p := range wanted {
			verifAssert(planned[p], "every client-selected field is planned at its own response path: "+p)
		}
	}
	verifReach("operation translated")
}

// vSelectedThroughAbstract: the sub-request selects T.f where the client selected I.f on an interface I that T implements
func vSelectedThroughAbstract(sc *ast.Schema, clientAll map[vPair]bool, p vPair) bool {
	for q := range clientAll {
		if q.field == p.field && q.typ != p.typ && vTypeMatches(sc, q.typ, p.typ) {
			return true
		}
	}
	return false
}

// vCoveredPerImplementation: I.f counts as requested when every implementation of I that some sub-request is about has f requested
func vCoveredPerImplementation(sc *ast.Schema, covered map[vPair]bool, p vPair) bool {
	def := sc.Types[p.typ]
	if def == nil || (def.Kind != ast.Interface && def.Kind != ast.Union) {
		return false
	}
	n := 0
	for _, pt := range sc.PossibleTypes[p.typ] {
		if !covered[vPair{pt.Name, p.field}] {
			return false
		}
		n++
	}
	return n > 0
}

func vPlannedStepsValid(f *vFed, steps []*planner.QueryPlanStep, clientOp ast.Operation) {
	for _, st := range steps {
		if st.URL == common.InternalServiceName {
			continue // answered by the gateway itself (introspection, root __typename)
		}
		svc := f.svcByURL(st.URL)
		verifAssert(svc != nil, "planned steps go to known services only")
		if svc == nil {
			continue
		}
		sdoc, serr := gqlparser.LoadQuery(svc.schema, st.QueryString)
		verifAssert(serr == nil, "every planned sub-request validates against the schema of its service: "+st.URL+": "+vNorm(st.QueryString))
		if serr == nil && len(sdoc.Operations) == 1 {
			if len(st.InsertionPoint) == 0 {
				verifAssert(sdoc.Operations[0].Operation == clientOp, "a root step carries the client's operation type")
			} else {
				verifAssert(sdoc.Operations[0].Operation == ast.Query, "a dependent step is a query")
				verifAssert(st.OperationName == nil && sdoc.Operations[0].Name == "", "a dependent step is anonymous")
			}
		}
		vPlannedStepsValid(f, st.Then, clientOp)
	}
}

// vSelPaths collects the response paths (dot-joined response keys) of every field of a selection set
func vSelPaths(ss ast.SelectionSet, base string, out map[string]bool) {
	for _, sel := range ss {
		switch s := sel.(type) {
		case *ast.Field:
			if s.Name == "__typename" {
				continue
			}
			key := s.Alias
			if key == "" {
				key = s.Name
			}
			p := base + "." + key
			out[p] = true
			vSelPaths(s.SelectionSet, p, out)
		case *ast.InlineFragment:
			vSelPaths(s.SelectionSet, base, out)
		case *ast.FragmentSpread:
			vSelPaths(s.Definition.SelectionSet, base, out)
		}
	}
}

func vStepPaths(steps []*planner.QueryPlanStep, out map[string]bool) {
	for _, st := range steps {
		base := ""
		for _, ip := range st.InsertionPoint {
			base += "." + ip
		}
		ss := st.SelectionSet
		if len(st.InsertionPoint) > 0 {
			// a dependent step selects node(id: $id) { ... on T { <fields> } }: the fields sit at the insertion point
			for _, sel := range ss {
				if nf, ok := sel.(*ast.Field); ok && nf.Name == "node" {
					ss = nf.SelectionSet
				}
			}
		}
		vSelPaths(ss, base, out)
		vStepPaths(st.Then, out)
	}
}

// vJSONNorm passes a value through the JSON codec so that numbers have one representation
func vJSONNorm(v interface{}) interface{} {
	b, _ := json.Marshal(map[string]interface{}{"v": v})
	var out map[string]interface{}
	json.Unmarshal(b, &out)
	return out["v"]
}

// ---------------- C06: each mutation root field reaches its owner exactly once ----------------

const vSM1 = `
interface Node { id: ID! }
type Human implements Node { id: ID! name: String! }
type SavePayload { human: Human query: Query }
type Query { node(id: ID!): Node me: Human ping: String }
type Mutation { saveHuman(name: String!): Human! promote(id: ID!): Human! ping: String dropHuman(name: String!): Human purge: [Human!]! saveBoth(name: String!): SavePayload }
`
const vSM2 = `
interface Node { id: ID! }
type Human implements Node { id: ID! phone: String! }
type Query { node(id: ID!): Node phones(first: Int): Int }
type Mutation { savePhone(p: String!): Human! bump: Int }
`

func vMutationWorld() *vWorld {
	w := &vWorld{ents: map[string]vEnt{}, roots: map[string]interface{}{}}
	w.ents["h1"] = vEnt{"__typename": "Human", "id": "h1"}
	w.ents["h2"] = vEnt{"__typename": "Human", "id": "h2"}
	w.roots["Query.me"] = vRef{"Human", "h1"}
	w.roots["Mutation.saveHuman"] = vRef{"Human", "h2"}
	w.roots["Mutation.promote"] = vRef{"Human", "h1"}
	w.roots["Mutation.savePhone"] = vRef{"Human", "h1"}
	w.roots["Mutation.bump"] = verifInt("bump", 0, 9)
	w.roots["Mutation.dropHuman"] = nil
	w.roots["Mutation.purge"] = []vRef{}
	w.ents["p1"] = vEnt{"__typename": "SavePayload", "id": "p1", "human": vRef{"Human", "h2"}, "query": vRootRef("Query")}
	w.roots["Mutation.saveBoth"] = vRef{"SavePayload", "p1"}
	w.roots["Query.phones"] = 3
	return w
}

type vMutOp struct {
	q       string
	roots   []string // selected mutation root fields (response keys omitted: names are unique here)
	known   string
	sibling string // another document with the same operation name, sent first
}

func vMutationOps() []vMutOp {
	return []vMutOp{
		{q: `mutation { saveHuman(name: "x") { name phone } }`, roots: []string{"saveHuman"}},
		{q: `mutation { saveHuman(name: "x") { name } savePhone(p: "1") { phone name } }`, roots: []string{"saveHuman", "savePhone"}},
		{q: `mutation { bump savePhone(p: "1") { name } }`, roots: []string{"bump", "savePhone"}},
		{q: `mutation { a: saveHuman(name: "x") { phone } b: saveHuman(name: "y") { phone } }`, roots: []string{"saveHuman", "saveHuman"}},
		{q: `mutation { ping }`, roots: []string{"ping"}},
		{q: `mutation M($n: String!) { saveHuman(name: $n) { id phone } bump }`, roots: []string{"saveHuman", "bump"}},
		// a client variable that happens to be called id (the name the executor uses for node lookups)
		{q: `mutation($id: ID!) { promote(id: $id) { name phone } }`, roots: []string{"promote"}},
		// the mutation answers null / an empty list where another service's fields would be stitched in
		{q: `mutation { dropHuman(name: "x") { name phone } }`, roots: []string{"dropHuman"}},
		{q: `mutation { purge { name phone } bump }`, roots: []string{"purge", "bump"}},
		// __typename of the root next to the mutation (answered by the gateway itself)
		{q: `mutation { __typename saveHuman(name: "x") { name phone } }`, roots: []string{"saveHuman"}},
		// a payload that hands out the Query type again (the Relay convention): what is read through it
		// at the other service is a follow-up query, never a second mutation
		{q: `mutation Both($n: String!, $k: Int) { saveBoth(name: $n) { human { name phone } query { ping phones(first: $k) me { phone } } } }`, roots: []string{"saveBoth"}},
		// two different documents under one operation name
		{q: `mutation Save { saveHuman(name: "x") { name } }`, roots: []string{"saveHuman"}, sibling: `mutation Save { bump }`},
		{q: `mutation Save { bump }`, roots: []string{"bump"}, sibling: `mutation Save { saveHuman(name: "x") { name } }`},
	}
}

func vRootFields(op *ast.OperationDefinition) []string {
	var out []string
	for _, f := range vTopFields(op.SelectionSet) {
		out = append(out, f.Name)
	}
	return out
}

func vTopFields(ss ast.SelectionSet) []*ast.Field {
	var out []*ast.Field
	for _, sel := range ss {
		switch s := sel.(type) {
		case *ast.Field:
			out = append(out, s)
		case *ast.InlineFragment:
			out = append(out, vTopFields(s.SelectionSet)...)
		case *ast.FragmentSpread:
			out = append(out, vTopFields(s.Definition.SelectionSet)...)
		}
	}
	return out
}

func VerifMutations() {
	vProp = "C06"
	ops := vMutationOps()
	oi := verifChoice("op", len(ops))
	op := ops[oi]
	verifLog("op: " + op.q)
	cfgi := verifChoice("config", 3)
	var opts []GatewayOption
	switch cfgi {
	case 1:
		opts = []GatewayOption{WithGetParentTypeFromIDFunc(vExactHint)}
	case 2:
		opts = []GatewayOption{WithPlanner(planner.NewCachedPlanner(1000000000))}
	}
	f := vNewFed(vMutationWorld(), opts, vSM1, vSM2)
	// fault injection: one downstream call of one service fails (or none)
	faultSvc := verifChoice("faultsvc", 3) // 0: none, 1: svc0, 2: svc1
	if verifParam("healthyonly", 0) == 1 {
		verifAssume(faultSvc == 0)
	}
	faultCall := 0
	if faultSvc != 0 {
		faultCall = verifChoice("faultcall", 2)
		s := f.svcs[faultSvc-1]
		s.fault = func(s *vSvc, call int, in []*requests.Request) ([]map[string]interface{}, error, bool) {
			if call == faultCall {
				return nil, &vDownErr{"service unavailable"}, true
			}
			return nil, nil, false
		}
	}
	if pdoc, perr := gqlparser.LoadQuery(f.gw.schema, op.q); perr == nil {
		var sp planner.SequentialPlanner
		plan, err := sp.Plan(&planner.PlanningContext{Operation: pdoc.Operations[0], Request: &requests.Request{Query: op.q}, Schema: f.gw.schema, TypeURLMap: f.gw.typeURLMap})
		if err == nil {
			vPlannedStepsValid(f, plan.RootSteps, ast.Mutation)
		}
	}
	rounds := 1
	if cfgi == 2 {
		// the caching planner is primed with the query that has the same selection set
		if oi == 4 {
			f.vPost(`query { ping }`, nil, "")
		}
		rounds = 2
	}
	vars := map[string]interface{}{"n": "x", "id": "h1", "k": 2}
	if op.sibling != "" {
		f.vPost(op.sibling, vars, "")
	}
	for r := 0; r < rounds; r++ {
		f.log = nil
		for _, s := range f.svcs {
			s.calls = 0
		}
		_, ans := f.vPost(op.q, vars, "")
		if ab, aerr := json.Marshal(ans); aerr == nil {
			verifLog("answer: " + string(ab))
		}
		counts := map[string]int{}
		for _, sub := range f.log {
			svc := f.svcByURL(sub.url)
			verifLog("sub " + sub.url + ": " + vNorm(sub.query))
			sdoc, serr := gqlparser.LoadQuery(svc.schema, sub.query)
			verifAssert(serr == nil, "every sub-request is valid for its service")
			if serr != nil {
				continue
			}
			sop := sdoc.Operations[0]
			roots := vRootFields(sop)
			if sop.Operation == ast.Mutation {
				for _, rf := range roots {
					counts[rf]++
				}
				continue
			}
			verifAssert(sop.Operation == ast.Query, "follow-up lookups are queries")
			for _, rf := range roots {
				verifAssert(rf == "node" || rf == "phones", "follow-up lookups go through node or a query field read through a payload, never through a mutation field")
			}
			verifAssert(sub.opn == "", "follow-up lookups are anonymous")
		}
		want := map[string]int{}
		for _, rf := range op.roots {
			want[rf]++
		}
		for rf, n := range want {
			verifAssert(counts[rf] == n, "every selected mutation root field is executed exactly once per client request: "+rf)
		}
		for rf := range counts {
			verifAssert(want[rf] > 0, "no mutation field is executed that the client did not select: "+rf)
		}
	}
	if faultSvc != 0 {
		verifReach("with a downstream failure")
	} else {
		verifReach("healthy")
	}
}

type vDownErr struct{ s string }

func (e *vDownErr) Error() string { return e.s }

// ---------------- C12-K2: downstream calls are bounded by plan levels ----------------

func vLevels(steps []*planner.QueryPlanStep, depth int, out map[string]map[int]bool) {
	for _, s := range steps {
		if out[s.URL] == nil {
			out[s.URL] = map[int]bool{}
		}
		out[s.URL][depth] = true
		vLevels(s.Then, depth+1, out)
	}
}

func VerifRoundTrips() {
	vProp = "C12"
	vK = verifParam("k", 3)
	sc, op := vPickScenario()
	if op.known != "" {
		// operations whose translation is a recorded C01/C02 finding are outside this kernel
		verifAssume(false)
	}
	var vars map[string]interface{}
	if op.vars != nil {
		vars = op.vars()
	}
	// with or without the id-to-type hint option (it must not change how requests are batched)
	var opts []GatewayOption
	if sc.hint != nil && verifChoice("hint", 2) == 1 {
		opts = []GatewayOption{WithGetParentTypeFromIDFunc(sc.hint)}
	}
	f := vNewFed(sc.w, opts, sc.sdls...)
	doc, derr := gqlparser.LoadQuery(f.gw.schema, op.q)
	verifAssert(derr == nil, "scenario operation is valid")
	var sp planner.SequentialPlanner
	plan, perr := sp.Plan(&planner.PlanningContext{Operation: doc.Operations[0], Request: &requests.Request{Query: op.q, Variables: vars}, Schema: f.gw.schema, TypeURLMap: f.gw.typeURLMap})
	verifAssert(perr == nil, "scenario operation plans")
	levels := map[string]map[int]bool{}
	vLevels(plan.RootSteps, 0, levels)
	_, ans := f.vPost(op.q, vars, op.opName)
	// what is looked up once is still stitched into every place that needs it
	if exp, valid := f.vReference(op.q, vars, op.opName); valid {
		if data, ok := ans["data"].(map[string]interface{}); ok && ans["errors"] == nil {
			for k := range exp {
				if len(k) > 2 && k[:2] == "__" && k != "__typename" {
					delete(exp, k)
					delete(data, k)
				}
			}
			vPrune(data)
			vAssertSame("", data, exp)
			verifReach("stitched answer compared")
		}
	}
	calls := map[string]int{}
	for _, u := range f.burl {
		calls[u]++
	}
	for u, n := range calls {
		verifAssert(n <= len(levels[u]), "batched calls to a service never exceed the plan levels it appears at")
	}
	// inside one batched call, a lookup (sub-query, id) that carries no other variable appears once,
	// whichever plan steps asked for it
	idx := 0
	for _, size := range f.batch {
		if idx+size > len(f.log) {
			break
		}
		call := f.log[idx : idx+size]
		idx += size
		for i := range call {
			if len(call[i].vars) != 1 || call[i].vars["id"] == nil {
				continue
			}
			for j := 0; j < i; j++ {
				if len(call[j].vars) == 1 && call[j].query == call[i].query && call[j].vars["id"] == call[i].vars["id"] {
					verifAssert(false, "identical lookups of one entity in one batched call are sent once: "+vNorm(call[i].query))
				}
			}
		}
		if size > 1 {
			verifReach("batched call inspected")
		}
	}
	verifReach("round trips counted")
}
