package pebbles

import (
	"encoding/json"
	"sort"
)

// C09-K2: the executor boundary. The gateway talks to the fake services over the real
// MultiOpQueryer; one downstream answer is mutilated (node missing / mistyped, values whose shape
// contradicts the schema, data missing); the client must still get a well-formed response, errors
// for failure signals, and nothing in data that no service returned.

type vMut struct {
	kind    int // 0 null, 1 scalar, 2 [], 3 [5], 4 {} , 5 wrap in list, 6 unwrap first element, 7 delete key, 8/9 errors: [null]
	depth   int
	applied bool
	signal  bool // the mutilation is a failure signal (node missing or mistyped, data missing)
}

func vMutValue(kind int, old interface{}) (interface{}, bool) {
	switch kind {
	case 0:
		return nil, true
	case 1:
		return "scalar-from-service", true
	case 2:
		return []interface{}{}, true
	case 3:
		return []interface{}{5}, true
	case 4:
		return map[string]interface{}{}, true
	case 5:
		return []interface{}{old}, true
	case 6:
		if l, ok := old.([]interface{}); ok && len(l) > 0 {
			return l[0], true
		}
		return nil, false
	}
	return nil, false
}

func vSortedKeys(m map[string]interface{}) []string {
	ks := make([]string, 0, len(m))
	for k := range m {
		ks = append(ks, k)
	}
	sort.Strings(ks)
	return ks
}

// vMutilate changes the first composite-valued member found at the given depth
func vMutilate(data map[string]interface{}, mu *vMut, depth int) {
	for _, k := range vSortedKeys(data) {
		v := data[k]
		_, isMap := v.(map[string]interface{})
		_, isList := v.([]interface{})
		if !isMap && !isList && !(k == "node") {
			continue
		}
		if depth == mu.depth {
			if mu.kind == 7 {
				delete(data, k)
				mu.applied = true
			} else if nv, ok := vMutValue(mu.kind, v); ok {
				data[k] = nv
				mu.applied = true
			}
			if mu.applied && k == "node" && depth == 0 {
				switch mu.kind {
				case 1, 2, 3, 5, 7:
					mu.signal = true // node missing or mistyped
				}
			}
			return
		}
		if isMap {
			vMutilate(v.(map[string]interface{}), mu, depth+1)
			return
		}
		for _, e := range v.([]interface{}) {
			if em, ok := e.(map[string]interface{}); ok {
				vMutilate(em, mu, depth+1)
				return
			}
		}
		return
	}
}

func vLeaves(v interface{}, out map[string]bool) {
	switch x := v.(type) {
	case map[string]interface{}:
		for _, e := range x {
			vLeaves(e, out)
		}
	case []interface{}:
		for _, e := range x {
			vLeaves(e, out)
		}
	case string:
		out[x] = true
	}
}

var vMutation *vMut
var vMutURL string
var vMutCall int
var vMutElem int
var vMutDropData bool
var vServed map[string]bool

// vMutHook is called by the transport with the decoded answer of every downstream call
func vMutHook(url string, call int, resps []map[string]interface{}) {
	if vMutation != nil && url == vMutURL && call == vMutCall && len(resps) > 0 {
		i := vMutElem
		if i >= len(resps) {
			i = len(resps) - 1
		}
		if vMutation.kind >= 8 {
			// a non-empty errors list whose entries are null (next to the data, or instead of it)
			resps[i]["errors"] = []interface{}{nil}
			if vMutation.kind == 9 {
				resps[i]["data"] = nil
			}
			vMutation.applied, vMutation.signal = true, true
		} else if vMutDropData {
			delete(resps[i], "data")
			vMutation.applied, vMutation.signal = true, true
		} else if d, ok := resps[i]["data"].(map[string]interface{}); ok {
			vMutilate(d, vMutation, 0)
		}
	}
	for _, r := range resps {
		vLeaves(r["data"], vServed)
	}
}

func VerifMutilatedAnswers() {
	vK = 2
	vMinLen = 1
	ops := []string{
		`{ me { name phone } }`,
		`{ getHumans { name phone } }`,
		`{ getHumans { friends { phone } } }`,
		`{ me { best { phone age } friends { name } } }`,
		// fields the gateway answers itself next to fields of services: a failure below still shows
		`{ __typename me { name phone } }`,
		`{ me { name phone } __schema { queryType { name } } }`,
	}
	q := ops[verifChoice("op", len(ops))]
	verifLog("op: " + q)
	w := vReadmeWorld(2)
	f := vNewHTTPFed(w, 3000, nil, vSA, vSB)
	vMutHookFn = vMutHook
	vServed = map[string]bool{}
	vMutation = &vMut{kind: verifChoice("kind", 10), depth: verifChoice("depth", 3)}
	if vMutation.kind >= 8 {
		verifAssume(vMutation.depth == 0)
	}
	vMutURL = []string{"svc0", "svc1"}[verifChoice("svc", 2)]
	vMutCall = verifChoice("call", 2)
	vMutElem = verifChoice("elem", 2)
	vMutDropData = vMutation.kind == 7 && vMutation.depth == 2
	// alone, or as the second operation of a batch whose first operation needs no service
	var code int
	var out map[string]interface{}
	if verifChoice("batched", 2) == 1 {
		body, _ := json.Marshal([]interface{}{map[string]interface{}{"query": `{ __schema { queryType { name } } }`}, map[string]interface{}{"query": q}})
		rec := vPostRaw(f.gw, "application/json", body)
		code = rec.code
		var arr []interface{}
		verifAssert(json.Unmarshal(rec.body, &arr) == nil && len(arr) == 2, "a batch of two is answered with an array of two")
		if len(arr) == 2 {
			first, _ := arr[0].(map[string]interface{})
			verifAssert(first != nil && first["errors"] == nil && first["data"] != nil, "the other operation of the batch keeps its own answer")
			out, _ = arr[1].(map[string]interface{})
		}
		verifAssert(out != nil, "every operation of a batch is answered with an object, at its own position")
		if out == nil {
			return
		}
		verifReach("mutilated answer inside a batch")
	} else {
		code, out = f.vPost(q, nil, "")
	}
	verifAssert(code == 200, "status 200 whatever the services answer")
	_, hasData := out["data"]
	_, hasErrs := out["errors"]
	verifAssert(hasData || hasErrs, "the response carries data and/or errors")
	if vMutation.applied && vMutation.signal {
		errs, _ := out["errors"].([]interface{})
		verifAssert(len(errs) > 0, "a failure signal (missing data, missing or mistyped node) is reported in errors")
		verifReach("failure signal reported")
	}
	got := map[string]bool{}
	if dm, ok := out["data"].(map[string]interface{}); ok {
		// what the gateway answers itself (root __typename, __schema, __type) comes from no service
		own := map[string]interface{}{}
		for k, v := range dm {
			if len(k) < 2 || k[:2] != "__" {
				own[k] = v
			}
		}
		vLeaves(own, got)
	} else {
		vLeaves(out["data"], got)
	}
	for leaf := range got {
		verifAssert(vServed[leaf], "no value appears in data that no service returned: "+leaf)
	}
	// the process keeps serving: the next request on the same gateway is answered normally
	vMutation = nil
	f.log = nil
	_, out2 := f.vPost(`{ me { name phone } }`, nil, "")
	exp, _ := f.vReference(`{ me { name phone } }`, nil, "")
	d2, _ := out2["data"].(map[string]interface{})
	verifAssert(d2 != nil && out2["errors"] == nil, "the next request is served normally")
	if d2 != nil {
		vAssertSame("", d2, exp)
	}
	if vMutation == nil {
		verifReach("mutilation explored")
	}
}
