package pebbles

import (
	"encoding/json"
)

// C18: subscription teardown is safe under every interleaving. The real subscriptionHandler loop,
// subscriptionDict.Clean(All), subscriptionEntry.Listen/Close, sendHeartbeat and the goroutines of
// (*MultiOpQueryer).Subscribe run against scripted client and upstream behaviour; the engine explores
// every interleaving and reports panics, fatal errors, deadlocks and leaked goroutines by itself.

func VerifTeardown() {
	vMaxTicks = verifParam("ticks", 1)
	f := vNewSubFed(vSubWorld(), nil)
	client := vNewConn("client")
	nEvents := verifChoice("events", verifParam("maxevents", 1)+1)
	upEnd := verifChoice("upstream-end", 4) // 0 complete, 1 error frame, 2 disconnect, 3 stays open
	if verifParam("slim", 0) == 1 && nEvents >= 1 {
		verifAssume(upEnd == 0 || upEnd == 3)
	}
	if p := verifParam("pin_upend", -1); p >= 0 {
		verifAssume(upEnd == p)
	}
	if p := verifParam("pin_events", -1); p >= 0 {
		verifAssume(nEvents == p)
	}
	vWs = &vWsWorld{client: client}
	if verifParam("upbroken", 0) == 1 && verifChoice("upbroken", 2) == 1 {
		vWs.upBroken = true
	}
	vWs.upScript = func(up *vConn, n int) {
		if up.reset {
			<-up.closeCh
			return
		}
		for i := 0; i < nEvents; i++ {
			if !up.vSend(vServerData("1", map[string]interface{}{"humanChanged": map[string]interface{}{"id": "h1", "name": "n" + verifItoa(i)}})) {
				return
			}
		}
		if verifParam("barepayload", 0) == 1 && verifChoice("bare", 2) == 1 {
			// a data message without payload
			if !up.vSend([]byte(`{"type":"data","id":"1"}`)) {
				return
			}
		}
		switch upEnd {
		case 0:
			up.vSend([]byte(`{"type":"complete","id":"1"}`))
		case 1:
			up.vSend([]byte(`{"type":"error","id":"1","payload":[{"message":"upstream failed"}]}`))
		case 2:
			close(up.in)
		case 3:
			<-up.closeCh
		}
	}
	// client script
	steps := 1 + verifChoice("client-steps", verifParam("maxsteps", 2))
	if e := verifParam("exactsteps", 0); e > 0 {
		verifAssume(steps == e)
	}
	script := make([]int, steps)
	for i := range script {
		script[i] = verifChoice("client"+verifItoa(i), verifParam("kinds", 7))
		if p := verifParam("pin_client", -1); p >= 0 {
			verifAssume(script[i] == p)
		}
		if p := verifParam("pin_first", -1); p >= 0 && i == 0 {
			verifAssume(script[i] == p)
		}
		if p := verifParam("pin_second", -1); p >= 0 && i == 1 {
			verifAssume(script[i] == p)
		}
		if verifParam("noise_second", 0) == 1 && i == 1 {
			// second messages the handler ignores: stop of an unknown id, malformed JSON, unknown type
			verifAssume(script[i] == 2 || script[i] == 4 || script[i] == 5)
		}
	}
	desc := "client script:"
	for _, st := range script {
		desc += " " + []string{"start-s1", "stop-s1", "stop-unknown", "terminate", "malformed", "bogus", "start-s2", "init-again", "start-without-payload", "start-two-services"}[st]
	}
	verifLog(desc + "; upstream: " + verifItoa(nEvents) + " events then " + []string{"complete", "error", "disconnect", "stays open"}[upEnd])
	go func() {
		if !client.vSend(vClientMsg("connection_init", "", "")) {
			return
		}
		for _, s := range script {
			var m []byte
			switch s {
			case 0:
				if verifParam("stitched", 0) == 1 {
					m = vClientMsg("start", "s1", `subscription { humanChanged { name phone } }`)
				} else {
					m = vClientMsg("start", "s1", `subscription { humanChanged { name } }`)
				}
			case 1:
				m = vClientMsg("stop", "s1", "")
			case 2:
				m = vClientMsg("stop", "unknown", "")
			case 3:
				m = vClientMsg("connection_terminate", "", "")
			case 4:
				m = []byte(`{"type": "start", "id": `)
			case 5:
				m = vClientMsg("bogus", "", "")
			case 6:
				m = vClientMsg("start", "s2", `subscription { tick }`)
			case 7:
				// connection_init once more, on a connection that is already running
				m = vClientMsg("connection_init", "", "")
			case 8:
				// an incomplete message: start without a payload
				m = []byte(`{"type":"start","id":"s3"}`)
			case 9:
				// an operation over the websocket whose root fields belong to two services: refused
				m = vClientMsg("start", "s4", `{ me { name } phones }`)
			}
			if !client.vSend(m) {
				return
			}
		}
		// abrupt disconnect at the end of the script; with a reset the gateway's writes fail from here on
		if verifParam("mayreset", 0) == 1 && verifChoice("reset", 2) == 1 {
			client.reset = true
		}
		close(client.in)
	}()
	f.gw.Handler(&vRecorder{}, vWsRequest())

	// the handler has returned: the connection is finished
	verifAssert(client.contiguous(), "every frame the client receives is written contiguously")
	for _, fr := range client.frames {
		var m map[string]interface{}
		verifAssert(json.Unmarshal(fr, &m) == nil && m["type"] != nil, "every frame is a complete well-formed message")
	}
	if len(vWs.upstreams) >= 2 {
		verifReach("two subscriptions running")
	}
	vFinished = true
	vUps = vWs.upstreams
	verifReach("handler returned")
}

var vFinished bool
var vUps []*vConn

// VerifTeardownEnd is called by nobody: upstream closure is asserted by the leak check (an upstream
// script that stays open only ends when its connection is closed).
