package merger

import (
	"sort"
	"strings"

	"github.com/vektah/gqlparser/v2"
	"github.com/vektah/gqlparser/v2/ast"
)

// C03 / C04 / C05: ExtendMergerFunc.Merge (and the node-hiding merger) over SymSchema: a descriptor of
// S service schemas built from symbolic choices and rendered to concrete SDL per path.

type vField struct {
	name string
	typ  string // rendered type
	arg  string // rendered argument list ("" = none)
	def  string // default of an input field ("" = none)
}

type vType struct {
	kind    string // "", object, enum, input, scalar, union
	node    bool
	plainID bool // a plain (non-Node) object or input that nevertheless has a field id: ID!
	fields  []vField
	values  []string // enum values / union members
}

type vService struct {
	t      vType
	dup    bool // declares the shared root field `dup`
	node   bool // declares Query.node
	probe  bool // declares a node-shaped root field with another name
	marked bool // its Node type T also implements the interface Marked, which only this service declares
	probe2 bool // declares a root field that returns Node but takes more than the id
	mut    bool // declares the mutation root field m__p (a root type some services lack)
	noroot bool // a pure extension service: its Query holds nothing but node, all it contributes are fields of the Node type T
	idx    int
}

var vSlim = false

// vMutField: the mutation root field some services declare: m__p, or a field of the Relay shape
// node(id: ID!): Node (the entry point convention concerns Query only)
var vMutNode = false

func vMutName() string {
	if vMutNode {
		return "node"
	}
	return "m__p"
}

// vPlain: the descriptor slice with plain types that carry an id field and input fields with defaults
var vPlain = false

// vInDefault: whether the input field f1 carries a default (one choice for all services: services that
// disagree about a default are not one of the conflicts C05 lists)
var vInDefault = 0

func vInputDefault() bool {
	if !vPlain {
		return false
	}
	if vInDefault == 0 {
		vInDefault = 1 + verifChoice("input.default", 2)
	}
	return vInDefault == 2
}

func vPickFields(tag string) []vField {
	f1 := vField{name: "f1", typ: "Int"}
	if !vSlim {
		if verifChoice(tag+".f1type", 2) == 1 {
			f1.typ = "String"
		}
		if vPlain {
			// list-valued defaults (their text lives in the children of the value, not in its Raw)
			f1.arg = []string{"", "(a: [Int] = [1, 2])", "(a: [Int] = [1])"}[verifChoice(tag+".f1arg", 3)]
		} else if verifChoice(tag+".f1arg", 2) == 1 {
			f1.arg = "(a: Int = 3)"
		}
	}
	// legal names may contain a double underscore anywhere but at the start
	f2 := vField{name: "f__2", typ: "[String!]"}
	if vSlim && verifChoice(tag+".f2name", 2) == 1 {
		f2.name = "ID" // names are case sensitive: a field of its own next to the Relay id
	}
	switch verifChoice(tag+".fields", 3) {
	case 0:
		return []vField{f1}
	case 1:
		return []vField{f2}
	}
	return []vField{f1, f2}
}

// vPickNodeFields: a Node type may also declare nothing but its id
func vPickNodeFields(tag string) []vField {
	if verifChoice(tag+".idonly", 2) == 1 {
		return nil
	}
	return vPickFields(tag)
}

func vPickSubset(tag string, a, b string) []string {
	switch verifChoice(tag+".subset", 3) {
	case 0:
		return []string{a}
	case 1:
		return []string{b}
	}
	return []string{a, b}
}

func vPickType(tag string, kinds int) vType {
	k := verifChoice(tag+".kind", kinds)
	if vPlain {
		k = []int{0, 1, 2, 4}[k] // absent, object, Node object, input
	}
	switch k {
	case 1:
		return vType{kind: "object", fields: vPickFields(tag), plainID: vPlain && verifChoice(tag+".plainid", 2) == 1}
	case 2:
		return vType{kind: "object", node: true, fields: vPickNodeFields(tag)}
	case 3:
		return vType{kind: "enum", values: vPickSubset(tag, "A", "B")}
	case 4:
		t := vType{kind: "input", fields: vPickFields(tag), plainID: vPlain && verifChoice(tag+".plainid", 2) == 1}
		for i := range t.fields {
			if t.fields[i].name == "f1" && vPlain {
				// per service: no default, one default, another default (an input two services declare
				// with different defaults is not the same input)
				switch verifChoice(tag+".indefault", 3) {
				case 1:
					t.fields[i].def = map[string]string{"Int": "3", "String": `"x"`}[t.fields[i].typ]
				case 2:
					t.fields[i].def = map[string]string{"Int": "4", "String": `"y"`}[t.fields[i].typ]
				}
			}
		}
		return t
	case 5:
		return vType{kind: "union", values: vPickSubset(tag, "U1", "U__2")}
	case 6:
		return vType{kind: "scalar"}
	}
	return vType{}
}

func (s vService) sdl() string {
	var b strings.Builder
	b.WriteString("interface Node { id: ID! }\n")
	if !s.noroot {
		b.WriteString("type U1 { u: Int }\ntype U__2 { v__x: Int }\n")
	}
	t := s.t
	fields := func(isInput bool) string {
		var fs []string
		if t.node || t.plainID {
			fs = append(fs, "id: ID!")
		}
		for _, f := range t.fields {
			if isInput {
				d := ""
				if f.def != "" {
					d = " = " + f.def
				}
				fs = append(fs, f.name+": "+f.typ+d)
			} else {
				fs = append(fs, f.name+f.arg+": "+f.typ)
			}
		}
		return strings.Join(fs, " ")
	}
	switch t.kind {
	case "object":
		impl := ""
		if t.node {
			impl = " implements Node"
		}
		if s.marked {
			impl = " implements Node & Marked"
			b.WriteString("interface Marked { id: ID! }\n")
		}
		b.WriteString("type T" + impl + " { " + fields(false) + " }\n")
	case "enum":
		b.WriteString("enum T { " + strings.Join(t.values, " ") + " }\n")
	case "input":
		b.WriteString("input T { " + fields(true) + " }\n")
	case "union":
		b.WriteString("union T = " + strings.Join(t.values, " | ") + "\n")
	case "scalar":
		b.WriteString("scalar T\n")
	}
	if s.mut {
		if vMutNode {
			b.WriteString("type Mutation { node(id: ID!): Node }\n")
		} else {
			b.WriteString("type Mutation { m__p: Int }\n")
		}
	}
	if s.noroot {
		b.WriteString("type Query { node(id: ID!): Node }\n")
		return b.String()
	}
	b.WriteString("type Query { q" + verifItoa(s.idx) + ": Int")
	if s.dup {
		b.WriteString(" du__p: String")
	}
	if s.node {
		b.WriteString(" node(id: ID!): Node")
	}
	if s.probe {
		b.WriteString(" lookup(id: ID!): Node")
	}
	if s.probe2 {
		b.WriteString(" revision(id: ID!, rev: Int): Node")
	}
	if t.kind == "object" || t.kind == "enum" || t.kind == "union" || t.kind == "scalar" {
		b.WriteString(" t" + verifItoa(s.idx) + ": T")
	}
	if t.kind == "input" {
		b.WriteString(" i" + verifItoa(s.idx) + "(in: T): Int")
	}
	b.WriteString(" }\n")
	return b.String()
}

func vSameStrings(a, b []string) bool {
	if len(a) != len(b) {
		return false
	}
	x := append([]string{}, a...)
	y := append([]string{}, b...)
	sort.Strings(x)
	sort.Strings(y)
	for i := range x {
		if x[i] != y[i] {
			return false
		}
	}
	return true
}

// vAllFieldNames: the declared fields of a plain type include its id, if it has one (the id of a Node
// type is shared by design and is not an overlap)
func vAllFieldNames(t vType) []string {
	out := vFieldNames(t.fields)
	if t.plainID && !t.node {
		out = append(out, "id")
	}
	return out
}

func vFieldNames(fs []vField) []string {
	var out []string
	for _, f := range fs {
		out = append(out, f.name)
	}
	return out
}

// vConflict says whether two services cannot be combined (the list of C05), and why
func vConflict(a, b vService) string {
	if (a.dup && b.dup) || (a.probe2 && b.probe2) || (a.mut && b.mut) {
		return "same root field declared twice"
	}
	ta, tb := a.t, b.t
	if ta.kind == "" || tb.kind == "" {
		return ""
	}
	if ta.kind != tb.kind {
		return "one name used for different kinds"
	}
	switch ta.kind {
	case "union":
		if !vSameStrings(ta.values, tb.values) {
			return "union with different members"
		}
	case "object", "input":
		if ta.node != tb.node {
			return "implements Node in one service only"
		}
		na, nb := vAllFieldNames(ta), vAllFieldNames(tb)
		overlap := 0
		for _, x := range na {
			for _, y := range nb {
				if x == y {
					overlap++
				}
			}
		}
		if ta.node && overlap > 0 {
			return "Node type with a non-id field declared by two services"
		}
		if overlap > 0 && !(overlap == len(na) && overlap == len(nb)) {
			return "shared type neither identical nor disjoint"
		}
		for _, x := range ta.fields {
			for _, y := range tb.fields {
				if x.name == y.name && (x.typ != y.typ || (ta.kind == "object" && x.arg != y.arg) || (ta.kind == "input" && x.def != y.def)) {
					return "shared field with different type or arguments"
				}
			}
		}
	}
	return ""
}

func vLoad(s vService) *ast.Schema {
	sc, err := gqlparser.LoadSchema(&ast.Source{Name: "svc", Input: s.sdl()})
	if err != nil {
		verifAssume(false) // the rendering is not a valid schema: outside the descriptor
	}
	return sc
}

// vLoaded: the parsed schema of every service, loaded once and handed to every merge of the run (a
// gateway that is rebuilt, or built for another order of its services, merges the same parsed schemas
// again: a merge must not write into its inputs)
var vLoaded map[int]*ast.Schema

func vMergeIn(order []int, svcs []vService, hide bool) (*MergeResult, error) {
	var inputs []*MergeInput
	if vLoaded == nil {
		vLoaded = map[int]*ast.Schema{}
	}
	for _, i := range order {
		if vLoaded[i] == nil {
			vLoaded[i] = vLoad(svcs[i])
		}
		inputs = append(inputs, &MergeInput{Schema: vLoaded[i], URL: "svc" + verifItoa(i)})
	}
	if hide {
		var m SanitizeNodeMergerFunc
		return m.Merge(inputs)
	}
	var m ExtendMergerFunc
	return m.Merge(inputs)
}

func vTypeSignature(sc *ast.Schema) []string {
	var out []string
	for name, d := range sc.Types {
		if strings.HasPrefix(name, "__") {
			continue
		}
		out = append(out, string(d.Kind)+" "+name)
		for _, f := range d.Fields {
			if strings.HasPrefix(f.Name, "__") {
				continue
			}
			sig := name + "." + f.Name + ": " + f.Type.String()
			if f.DefaultValue != nil {
				sig += " = " + f.DefaultValue.String()
			}
			for _, a := range f.Arguments {
				sig += " (" + a.Name + ": " + a.Type.String()
				if a.DefaultValue != nil {
					sig += " = " + a.DefaultValue.String()
				}
				sig += ")"
			}
			out = append(out, sig)
		}
		for _, v := range d.EnumValues {
			out = append(out, name+" value "+v.Name)
		}
		for _, m := range d.Types {
			out = append(out, name+" member "+m)
		}
		for _, i := range d.Interfaces {
			out = append(out, name+" implements "+i)
		}
	}
	sort.Strings(out)
	return out
}

func vPermutations(n int) [][]int {
	if n == 2 {
		return [][]int{{0, 1}, {1, 0}}
	}
	return [][]int{{0, 1, 2}, {0, 2, 1}, {1, 0, 2}, {1, 2, 0}, {2, 0, 1}, {2, 1, 0}}
}

func vDescribe(svcs []vService) {
	for _, s := range svcs {
		verifLog(strings.ReplaceAll(s.sdl(), "\n", " "))
	}
}

func vPickServices() []vService {
	S := verifParam("services", 2)
	kinds := verifParam("kinds", 7)
	vSlim = verifParam("slim", 0) == 1
	vPlain = verifParam("plainid", 0) == 1
	svcs := make([]vService, S)
	// which services declare Mutation.m__p: none, the first, the first and the last (with a service
	// without any Mutation type in between when there are three), the last two
	mutpat := 0
	vMutNode = false
	if vSlim {
		mutpat = verifChoice("mutpat", 4)
		vMutNode = mutpat != 0 && verifChoice("mutnode", 2) == 1
	}
	for i := range svcs {
		tag := "s" + verifItoa(i)
		svcs[i] = vService{idx: i, t: vPickType(tag, kinds)}
		svcs[i].mut = (mutpat == 1 && i == 0) || (mutpat == 2 && (i == 0 || i == S-1)) || (mutpat == 3 && i >= S-2)
		if vSlim || vPlain {
			// slim descriptors: no root-field toggles
			svcs[i].node = true
			continue
		}
		svcs[i].node = verifChoice(tag+".node", 2) == 1
		if i == 1 || i == 2 {
			svcs[i].dup = verifChoice(tag+".dup", 2) == 1
		}
		if i == 0 {
			svcs[i].dup = true
		}
		if i == 1 {
			svcs[i].probe = verifChoice(tag+".probe", 2) == 1
		}
		if i <= 1 {
			svcs[i].probe2 = verifChoice(tag+".probe2", 2) == 1
		}
		if i == 1 && svcs[i].t.kind == "object" && svcs[i].t.node && len(svcs[i].t.fields) > 0 && svcs[i].node && !svcs[i].dup && !svcs[i].probe && !svcs[i].probe2 {
			svcs[i].noroot = verifChoice(tag+".noroot", 2) == 1
		}
		if i == 0 && svcs[i].t.kind == "object" && svcs[i].t.node {
			svcs[i].marked = verifChoice(tag+".marked", 2) == 1
		}
	}
	return svcs
}

// VerifMerge: C03 (union of the schemas), C04 (routing table) and C05 (conflicts, order independence)
func VerifMerge() {
	svcs := vPickServices()
	S := len(svcs)
	vDescribe(svcs)
	conflict := ""
	for i := 0; i < S && conflict == ""; i++ {
		for j := i + 1; j < S && conflict == ""; j++ {
			conflict = vConflict(svcs[i], svcs[j])
		}
	}
	prop := verifParam("property", 3)
	id := []int{0, 1, 2}[:S]
	base, berr := vMergeIn(id, svcs, false)

	if prop == 5 {
		// ---- C05 ----
		vKnown05(svcs, conflict)
		if conflict != "" {
			verifAssert(berr != nil, "conflicting schemas are rejected: "+conflict)
			verifReach("conflict rejected")
		}
		var sig []string
		if berr == nil {
			sig = vTypeSignature(base.Schema)
		}
		for _, p := range vPermutations(S)[1:] {
			r, err := vMergeIn(p, svcs, false)
			verifAssert((err == nil) == (berr == nil), "acceptance does not depend on the order of the services")
			if err == nil && berr == nil {
				s2 := vTypeSignature(r.Schema)
				verifAssert(len(s2) == len(sig), "the merged types and fields do not depend on the order of the services")
				for k := range sig {
					if k < len(s2) {
						verifAssert(sig[k] == s2[k], "the merged types and fields do not depend on the order of the services: "+sig[k])
					}
				}
				if svcs[0].t.node {
					for _, f := range svcs[0].t.fields {
						u1, _ := base.TypeURLMap.Get("T", f.name)
						u2, _ := r.TypeURLMap.Get("T", f.name)
						verifAssert(u1 == u2, "Node-field routes do not depend on the order of the services")
					}
				}
			}
		}
		if berr == nil {
			verifReach("accepted in every order")
		}
		return
	}

	if berr != nil {
		return // C03 and C04 speak about successful merges
	}
	if conflict != "" {
		// a set C05 wants refused was merged all the same: what C03 and C04 say about successful merges
		// applies to it (a merge that silently prefers one side loses the other side's declarations)
		verifReach("conflicting set accepted")
	}
	sc := base.Schema
	if prop == 3 {
		// ---- C03 ----
		for _, s := range svcs {
			t := s.t
			if !s.noroot {
				verifAssert(sc.Types["Query"].Fields.ForName("q"+verifItoa(s.idx)) != nil, "every root field of every service is in the gateway schema")
			}
			if s.node {
				verifAssert(sc.Types["Query"].Fields.ForName("node") != nil, "the node entry point of a service is in the gateway schema")
			}
			if s.probe {
				verifAssert(sc.Types["Query"].Fields.ForName("lookup") != nil, "every root field of every service is in the gateway schema (lookup)")
			}
			if s.probe2 {
				verifAssert(sc.Types["Query"].Fields.ForName("revision") != nil, "every root field of every service is in the gateway schema (revision)")
			}
			if s.dup {
				verifAssert(sc.Types["Query"].Fields.ForName("du__p") != nil, "every root field of every service is in the gateway schema (du__p)")
			}
			if s.mut {
				verifAssert(sc.Types["Mutation"] != nil && sc.Types["Mutation"].Fields.ForName(vMutName()) != nil, "every root field of every service is in the gateway schema (Mutation."+vMutName()+")")
			}
			if t.kind == "" {
				continue
			}
			d := sc.Types["T"]
			verifAssert(d != nil, "every type of every service is in the gateway schema")
			if d == nil {
				continue
			}
			want := map[string]ast.DefinitionKind{"object": ast.Object, "enum": ast.Enum, "input": ast.InputObject, "union": ast.Union, "scalar": ast.Scalar}[t.kind]
			verifAssert(d.Kind == want, "with the same kind")
			for _, f := range t.fields {
				fd := d.Fields.ForName(f.name)
				verifAssert(fd != nil, "every field of every service is in the gateway schema")
				if fd != nil {
					verifAssert(fd.Type.String() == f.typ, "with the same type")
					if t.kind == "input" {
						verifAssert((fd.DefaultValue != nil) == (f.def != ""), "input fields keep their defaults")
						if fd.DefaultValue != nil && f.def != "" {
							verifAssert(fd.DefaultValue.String() == f.def, "input fields keep their defaults")
						}
					}
					if t.kind == "object" {
						verifAssert((len(fd.Arguments) == 1) == (f.arg != ""), "with the same arguments")
						if len(fd.Arguments) == 1 {
							a := fd.Arguments[0]
							want := map[string]string{"(a: Int = 3)": "Int = 3", "(a: [Int] = [1, 2])": "[Int] = [1,2]", "(a: [Int] = [1])": "[Int] = [1]"}[f.arg]
							got := ""
							if a.DefaultValue != nil {
								got = a.Type.String() + " = " + strings.ReplaceAll(a.DefaultValue.String(), " ", "")
							}
							verifAssert(a.Name == "a" && got == want, "argument name, type and default are preserved")
						}
					}
				}
			}
			if t.plainID {
				verifAssert(d.Fields.ForName("id") != nil, "every field of every service is in the gateway schema (id of a plain type)")
			}
			for _, v := range t.values {
				if t.kind == "enum" {
					verifAssert(d.EnumValues.ForName(v) != nil, "every enum value of every service is in the gateway schema")
				} else {
					found := false
					for _, m := range d.Types {
						found = found || m == v
					}
					verifAssert(found, "every union member of every service is in the gateway schema")
				}
			}
			if t.node {
				found := false
				for _, i := range d.Interfaces {
					found = found || i == "Node"
				}
				verifAssert(found, "interface implementations are preserved")
			}
			if s.marked {
				found := false
				for _, i := range d.Interfaces {
					found = found || i == "Marked"
				}
				verifAssert(found, "interface implementations declared by one service only are preserved")
			}
		}
		// nothing that no service declared
		if d := sc.Types["T"]; d != nil {
			for _, f := range d.Fields {
				declared := f.Name == "id"
				for _, s := range svcs {
					for _, sf := range s.t.fields {
						declared = declared || sf.name == f.Name
					}
				}
				verifAssert(declared, "the gateway schema contains nothing that no service declared")
			}
			n := 0
			for name := range sc.Types {
				if name == "T" {
					n++
				}
			}
			verifAssert(n == 1, "a type declared by several services appears once")
		}
		// node-hiding merger differs only by the absence of Query.node
		hid, herr := vMergeIn(id, svcs, true)
		verifAssert(herr == nil, "the node-hiding merger accepts what the default merger accepts")
		if herr == nil {
			verifAssert(hid.Schema.Types["Query"].Fields.ForName("node") == nil, "the node-hiding merger removes Query.node")
			a, b := vTypeSignature(sc), vTypeSignature(hid.Schema)
			var a2 []string
			for _, x := range a {
				if !strings.HasPrefix(x, "Query.node:") {
					a2 = append(a2, x)
				}
			}
			verifAssert(len(a2) == len(b), "the node-hiding merger changes nothing else")
		}
		verifReach("merged schema checked")
		return
	}

	// ---- C04 ----
	vKnown04(svcs)
	// the table of this merge, and the table of a second merge of the same parsed schemas (a gateway
	// rebuilt over what it had introspected; the order stays: order dependence is C05's subject)
	again, aerr := vMergeIn(id, svcs, false)
	verifAssert(aerr == nil, "a set that merged once merges again")
	tables := []TypeURLMap{base.TypeURLMap}
	if aerr == nil {
		tables = append(tables, again.TypeURLMap)
	}
	for _, tm := range tables {
		vCheckRoutes(tm, sc, svcs, S)
	}
	verifReach("routing table checked")
}

func vCheckRoutes(tm TypeURLMap, sc *ast.Schema, svcs []vService, S int) {
	for _, s := range svcs {
		if !s.noroot {
			u, ok := tm.Get("Query", "q"+verifItoa(s.idx))
			verifAssert(ok && u == "svc"+verifItoa(s.idx), "every root field is routed to the service that declared it")
		} else {
			verifReach("pure extension service")
		}
		if s.probe {
			ul, okl := tm.Get("Query", "lookup")
			verifAssert(okl && ul == "svc"+verifItoa(s.idx), "every root field is routed to the service that declared it (lookup)")
		}
		if s.dup {
			ud, okd := tm.Get("Query", "du__p")
			verifAssert(okd && ud == "svc"+verifItoa(s.idx), "every root field is routed to the service that declared it (du__p)")
		}
		if s.mut {
			um, okm := tm.Get("Mutation", vMutName())
			verifAssert(okm && um == "svc"+verifItoa(s.idx), "every root field is routed to the service that declared it (Mutation."+vMutName()+")")
		}
		if s.t.kind == "object" {
			for _, f := range s.t.fields {
				u, ok := tm.Get("T", f.name)
				verifAssert(ok, "no field of an object type is left without a route")
				declares := false
				for _, s2 := range svcs {
					if "svc"+verifItoa(s2.idx) == u && s2.t.kind == "object" {
						for _, f2 := range s2.t.fields {
							declares = declares || f2.name == f.name
						}
					}
				}
				verifAssert(declares, "a field is routed to a service whose schema declares it on that type")
			}
			isNode, known := tm.GetTypeIsImplementsNode("T")
			verifAssert(known && isNode == s.t.node, "a type is marked stitchable by id iff it implements Node")
		}
	}
	urls := tm.GetURLs()
	verifAssert(len(urls) == S, "the routed services are exactly the services that contributed fields")
	for _, d := range sc.Types {
		if d.Kind != ast.Object || strings.HasPrefix(d.Name, "__") {
			continue
		}
		for _, f := range d.Fields {
			if f.Name == "id" || strings.HasPrefix(f.Name, "__") || (d.Name == "Query" && f.Name == "node") {
				continue
			}
			_, ok := tm.Get(d.Name, f.Name)
			verifAssert(ok, "no field of the merged schema is left without a route: "+d.Name+"."+f.Name)
		}
	}
}

// ---- recorded findings (classes over the descriptor) ----

func vSharedFieldDiffers(a, b vService) bool {
	if a.t.kind != b.t.kind || (a.t.kind != "object" && a.t.kind != "input") {
		return false
	}
	for _, x := range a.t.fields {
		for _, y := range b.t.fields {
			if x.name == y.name && (x.typ != y.typ || (a.t.kind == "object" && x.arg != y.arg)) {
				return true
			}
		}
	}
	return false
}

func vNodeInSomeOnly(svcs []vService) bool {
	for _, s := range svcs[1:] {
		if s.node != svcs[0].node {
			return true
		}
	}
	return false
}

func vKnown05(svcs []vService, conflict string) {
	probe := false
	for _, s := range svcs {
		probe = probe || s.probe
	}
	_ = probe
	declaring := 0
	for _, s := range svcs {
		if s.t.kind == "object" || s.t.kind == "input" {
			declaring++
		}
	}
	// three or more declarations of a plain type: the merger compares each further service with the
	// ACCUMULATED type, so sets that are pairwise identical-or-disjoint ({f1},{f2},{f1}) still clash
	overlapSome, differSome := false, false
	for i := range svcs {
		for j := i + 1; j < len(svcs); j++ {
			a, b := svcs[i].t, svcs[j].t
			if (a.kind != "object" && a.kind != "input") || a.kind != b.kind || a.node || b.node {
				continue
			}
			na, nb := vAllFieldNames(a), vAllFieldNames(b)
			if !vSameStrings(na, nb) {
				differSome = true
			}
			for _, x := range na {
				for _, y := range nb {
					if x == y {
						overlapSome = true
					}
				}
			}
		}
	}
	// plain types of two services that share nothing but their id field
	idOnly := false
	for i := range svcs {
		for j := i + 1; j < len(svcs); j++ {
			a, b := svcs[i].t, svcs[j].t
			if a.kind == b.kind && (a.kind == "object" || a.kind == "input") && !a.node && !b.node && a.plainID && b.plainID {
				shared := false
				for _, x := range vFieldNames(a.fields) {
					for _, y := range vFieldNames(b.fields) {
						shared = shared || x == y
					}
				}
				idOnly = idOnly || !shared
			}
		}
	}
	verifKnown("C05-plain-types-sharing-only-id", idOnly && conflict == "shared type neither identical nor disjoint")
	verifKnown("C05-three-services-partial-overlap", declaring >= 3 && (conflict == "shared type neither identical nor disjoint" || (overlapSome && differSome)))
}

func vKnown03(svcs []vService) {
	probe := false
	for _, s := range svcs {
		probe = probe || s.probe
	}
	_ = probe
}

func vKnown04(svcs []vService) {
	probe := false
	for _, s := range svcs {
		probe = probe || s.probe
	}
	_ = probe
}
