package common

import "errors"

// C20 harness: AsyncMapReduce[int,int,[]int] under every interleaving and every failure pattern.

var verifErrs = []error{errors.New("e0"), errors.New("e1"), errors.New("e2"), errors.New("e3"), errors.New("e4"), errors.New("e5")}

// different items may fail for the same reason: distinct error values with one message
var verifSameErrs = []error{errors.New("same"), errors.New("same"), errors.New("same"), errors.New("same"), errors.New("same"), errors.New("same")}

func VerifAMR() {
	n := verifChoice("n", verifParam("nmax", 3)+1)
	payload := make([]int, n)
	for i := range payload {
		payload[i] = i
	}
	mapCalls := make([]int, n)
	fail := make([]bool, n)
	for i := range fail {
		fail[i] = verifBool("fail" + verifItoa(i))
	}
	errsOf := verifErrs
	if n >= 2 && verifChoice("samemessage", 2) == 1 {
		errsOf = verifSameErrs
	}
	inReduce := false
	reduced := make([]int, n)
	returned := false
	acc, errs := AsyncMapReduce(payload, []int(nil),
		func(i int) (int, error) {
			verifAssert(!returned, "map function runs before the helper returns")
			mapCalls[i]++
			if fail[i] {
				return 0, errsOf[i]
			}
			return i, nil
		},
		func(acc []int, v int) []int {
			verifAssert(!returned, "reduce function runs before the helper returns")
			verifAssert(!inReduce, "reduce is never concurrent with itself")
			inReduce = true
			verifYield()
			reduced[v]++
			inReduce = false
			return append(acc, v)
		})
	returned = true
	nfailTotal := 0
	for i := 0; i < n; i++ {
		if fail[i] {
			nfailTotal++
		}
	}
	nfail := 0
	for i := 0; i < n; i++ {
		verifAssert(mapCalls[i] == 1, "every item is mapped exactly once")
		if fail[i] {
			nfail++
			verifAssert(reduced[i] == 0, "a failed item is not reduced")
			found := 0
			for _, e := range errs {
				if e.Message == errsOf[i].Error() {
					found++
				}
			}
			if errsOf[i].Error() == "same" {
				verifAssert(found == nfailTotal, "every error is returned, also when several items fail with the same message")
			} else {
				verifAssert(found == 1, "every error is returned exactly once")
			}
		} else {
			verifAssert(reduced[i] == 1, "every success is reduced exactly once")
			found := 0
			for _, v := range acc {
				if v == i {
					found++
				}
			}
			verifAssert(found == 1, "the accumulator holds every success once")
		}
	}
	verifAssert(len(acc) == n-nfail, "the accumulator holds nothing but the successes")
	verifAssert(len(errs) == nfail, "exactly the errors that occurred are returned")
	verifAssert((errs == nil) == (nfail == 0), "error list is nil iff nothing failed")
	if n > 0 && nfail > 0 && nfail < n {
		verifReach("mixed success and failure")
	}
	if n == 0 {
		verifReach("empty input")
	}
}
