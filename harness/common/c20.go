package common

import (
	"context"
	"errors"
	"fmt"

	"github.com/buildbuildio/pebbles/gqlerrors"
)

// C20 harness: AsyncMapReduce[int,int,[]int] under every interleaving and every failure pattern.

var verifErrs = []error{errors.New("e0"), errors.New("e1"), errors.New("e2"), errors.New("e3"), errors.New("e4"), errors.New("e5"),
	errors.New("e6"), errors.New("e7"), errors.New("e8"), errors.New("e9"), errors.New("e10"), errors.New("e11"), errors.New("e12")}

// different items may fail for the same reason: distinct error values with one message
var verifSameErrs = []error{errors.New("same"), errors.New("same"), errors.New("same"), errors.New("same"), errors.New("same"), errors.New("same"),
	errors.New("same"), errors.New("same"), errors.New("same"), errors.New("same"), errors.New("same"), errors.New("same"), errors.New("same")}

// errors that callers really pass through the helper: a cancelled context, bare and wrapped (what net/http
// returns for a sub-request whose context ended), next to ordinary ones
var verifCtxErrs = []error{context.Canceled, fmt.Errorf("Post u1: %w", context.Canceled), errors.New("e2"), fmt.Errorf("Post u3: %w", context.DeadlineExceeded), errors.New("e4"), errors.New("e5"),
	errors.New("e6"), errors.New("e7"), errors.New("e8"), errors.New("e9"), errors.New("e10"), errors.New("e11"), errors.New("e12")}

func VerifAMR() {
	n := verifChoice("n", verifParam("nmax", 3)+1)
	payload := make([]int, n)
	for i := range payload {
		payload[i] = i
	}
	mapCalls := make([]int, n)
	fail := make([]bool, n)
	if verifParam("prefixfail", 0) == 1 {
		// many items: the first (or the last) k of them fail
		k := verifChoice("kfail", n+1)
		last := verifChoice("failside", 2) == 1
		for i := range fail {
			fail[i] = (!last && i < k) || (last && i >= n-k)
		}
	} else {
		for i := range fail {
			fail[i] = verifBool("fail" + verifItoa(i))
		}
	}
	errsOf := verifErrs
	// errors that are lists already, each a window of one shared array (len 1, spare capacity behind it)
	shared := gqlerrors.ErrorList{gqlerrors.NewError("", errors.New("w0")), gqlerrors.NewError("", errors.New("w1")), gqlerrors.NewError("", errors.New("w2")), gqlerrors.NewError("", errors.New("w3")), gqlerrors.NewError("", errors.New("w4")), gqlerrors.NewError("", errors.New("w5")),
		gqlerrors.NewError("", errors.New("w6")), gqlerrors.NewError("", errors.New("w7")), gqlerrors.NewError("", errors.New("w8")), gqlerrors.NewError("", errors.New("w9")), gqlerrors.NewError("", errors.New("w10")), gqlerrors.NewError("", errors.New("w11")), gqlerrors.NewError("", errors.New("w12"))}
	windows := false
	if n >= 1 {
		switch verifChoice("errkind", 4) {
		case 3:
			windows = true
			errsOf = make([]error, len(shared))
			for i := range shared {
				errsOf[i] = shared[i : i+1]
			}
		case 1:
			if n < 2 {
				verifAssume(false)
			}
			errsOf = verifSameErrs
		case 2:
			errsOf = verifCtxErrs
		}
	}
	inReduce := false
	reduced := make([]int, n)
	returned := false
	acc, errs := AsyncMapReduce(payload, []int(nil),
		func(i int) (int, error) {
			verifAssert(!returned, "map function runs before the helper returns")
			mapCalls[i]++
			if fail[i] {
				return 0, errsOf[i]
			}
			return i, nil
		},
		func(acc []int, v int) []int {
			verifAssert(!returned, "reduce function runs before the helper returns")
			verifAssert(!inReduce, "reduce is never concurrent with itself")
			inReduce = true
			verifYield()
			reduced[v]++
			inReduce = false
			return append(acc, v)
		})
	returned = true
	nfailTotal := 0
	for i := 0; i < n; i++ {
		if fail[i] {
			nfailTotal++
		}
	}
	nfail := 0
	for i := 0; i < n; i++ {
		verifAssert(mapCalls[i] == 1, "every item is mapped exactly once")
		if fail[i] {
			nfail++
			verifAssert(reduced[i] == 0, "a failed item is not reduced")
			found := 0
			for _, e := range errs {
				if e.Message == errsOf[i].Error() {
					found++
				}
			}
			if errsOf[i].Error() == "same" {
				verifAssert(found == nfailTotal, "every error is returned, also when several items fail with the same message")
			} else {
				verifAssert(found == 1, "every error is returned exactly once")
			}
		} else {
			verifAssert(reduced[i] == 1, "every success is reduced exactly once")
			found := 0
			for _, v := range acc {
				if v == i {
					found++
				}
			}
			verifAssert(found == 1, "the accumulator holds every success once")
		}
	}
	if windows {
		// what the map functions handed in is still what it was
		for i := range shared {
			verifAssert(shared[i] != nil && shared[i].Message == "w"+verifItoa(i), "the error lists of the callers are not written to")
		}
	}
	verifAssert(len(acc) == n-nfail, "the accumulator holds nothing but the successes")
	verifAssert(len(errs) == nfail, "exactly the errors that occurred are returned")
	verifAssert((errs == nil) == (nfail == 0), "error list is nil iff nothing failed")
	if n > 0 && nfail > 0 && nfail < n {
		verifReach("mixed success and failure")
	}
	if n == 0 {
		verifReach("empty input")
	}
}


// VerifAMRInterface: the helper instantiated with an interface result type: a map function may hand back
// nil as its (successful) result, which is reduced like any other
func VerifAMRInterface() {
	n := 1 + verifChoice("n", verifParam("nmax", 3))
	payload := make([]int, n)
	isNil := make([]bool, n)
	for i := range payload {
		payload[i] = i
		isNil[i] = verifBool("nil" + verifItoa(i))
	}
	reduced := 0
	nils := 0
	acc, errs := AsyncMapReduce(payload, []interface{}(nil),
		func(i int) (interface{}, error) {
			if isNil[i] {
				return nil, nil
			}
			return "v" + verifItoa(i), nil
		},
		func(acc []interface{}, v interface{}) []interface{} {
			reduced++
			if v == nil {
				nils++
			}
			return append(acc, v)
		})
	want := 0
	for _, b := range isNil {
		if b {
			want++
		}
	}
	verifAssert(errs == nil, "no error when nothing failed")
	verifAssert(reduced == n && len(acc) == n, "every successful result is reduced exactly once, nil results included")
	verifAssert(nils == want, "nil results reach the reduce function")
	verifReach("interface results reduced")
}
