package introspection

import (
	"strings"

	"github.com/buildbuildio/pebbles/queryer"
	"github.com/buildbuildio/pebbles/requests"
	"github.com/vektah/gqlparser/v2/ast"
)

// C15: a spec-compliant introspection answer, rendered from a symbolic descriptor, goes through the
// real parseQueryerResponse (abstract JSON codec driven by the struct tags of remote.go) and
// introspectRemoteSchema; the reconstructed schema must equal the descriptor.

type v15Queryer struct {
	answer    map[string]interface{}
	noDepEnum func() // called when the query does not ask for deprecated enum values
	noDepFld  func() // called when the query does not ask for deprecated fields
}

func (q *v15Queryer) URL() string { return "u" }
func (q *v15Queryer) Subscribe(*requests.Request, <-chan struct{}, chan *requests.Response) error {
	return nil
}
func (q *v15Queryer) Query(in []*requests.Request) ([]map[string]interface{}, error) {
	// a spec-compliant responder evaluates the query: deprecated enum values are only listed on request
	if len(in) == 1 && !strings.Contains(in[0].Query, "enumValues(includeDeprecated: true)") && q.noDepEnum != nil {
		q.noDepEnum()
	}
	if len(in) == 1 && !strings.Contains(in[0].Query, "fields(includeDeprecated: true)") && q.noDepFld != nil {
		q.noDepFld()
	}
	return []map[string]interface{}{q.answer}, nil
}

// type reference trees: N = NON_NULL, L = LIST, leaf = named type
func v15TypeRef(shape string, leaf string) map[string]interface{} {
	if shape == "" {
		kind := "SCALAR"
		switch leaf {
		case "O", "P":
			kind = "OBJECT"
		case "E":
			kind = "ENUM"
		case "IN":
			kind = "INPUT_OBJECT"
		case "I":
			kind = "INTERFACE"
		case "U":
			kind = "UNION"
		}
		return map[string]interface{}{"kind": kind, "name": leaf, "ofType": nil}
	}
	k := "LIST"
	if shape[0] == 'N' {
		k = "NON_NULL"
	}
	return map[string]interface{}{"kind": k, "name": nil, "ofType": v15TypeRef(shape[1:], leaf)}
}

func v15TypeString(shape string, leaf string) string {
	if shape == "" {
		return leaf
	}
	if shape[0] == 'N' {
		return v15TypeString(shape[1:], leaf) + "!"
	}
	return "[" + v15TypeString(shape[1:], leaf) + "]"
}

var v15Shapes = []string{"", "N", "L", "LN", "NL", "NLN", "LL", "NLNLN", "LLL", "NLLNL"}

func v15InputValue(name, shape, leaf string, def interface{}) map[string]interface{} {
	return map[string]interface{}{"name": name, "description": "", "type": v15TypeRef(shape, leaf), "defaultValue": def}
}

func v15Field(name, shape, leaf string, args []interface{}, deprecated bool, descr string) map[string]interface{} {
	f := map[string]interface{}{"name": name, "description": descr, "args": args, "type": v15TypeRef(shape, leaf), "isDeprecated": deprecated, "deprecationReason": nil}
	if deprecated {
		f["deprecationReason"] = "old"
	}
	return f
}

func v15Type(kind, name string) map[string]interface{} {
	return map[string]interface{}{"kind": kind, "name": name, "description": "", "fields": nil, "inputFields": nil, "interfaces": nil, "enumValues": nil, "possibleTypes": nil}
}

func v15Scalar(name string) map[string]interface{} { return v15Type("SCALAR", name) }

func VerifIntrospect() {
	shape := v15Shapes[verifChoice("shape", verifParam("shapes", len(v15Shapes)))]
	argShape := v15Shapes[verifChoice("argshape", 4)]
	defKind := verifChoice("default", 9) // 8: null for a String argument; 0 none, 1 Int literal, 2 String literal, 3 list literal, 4 object literal, 5 number for a custom scalar, 6 negative Int, 7 negative Float with exponent
	if defKind >= 3 && argShape != "" {
		verifAssume(false) // these defaults fix the argument's type themselves
	}
	deprecated := verifChoice("deprecated", 2) == 1
	dirArgs := verifChoice("dirargs", 2)
	descr := []string{"", "about f"}[verifChoice("descr", 2)]
	withMutation := verifChoice("mutation", 2) == 1
	malformed := verifChoice("malformed", 5) // 0 none, 1 NON_NULL without ofType, 2 possible type without name, 3 unknown possible type, 4 NON_NULL without ofType on a directive argument
	verifLog("type " + v15TypeString(shape, "Int") + " arg " + v15TypeString(argShape, "Int"))

	// the argument a of O.f and its default, in the shape the GraphQL specification prescribes:
	// defaultValue is a String holding the GraphQL literal
	var argDef interface{}
	argLeaf := "Int"
	wantDefault := ""
	switch defKind {
	case 1:
		argDef, wantDefault = "5", "5"
	case 2:
		argLeaf = "String"
		argDef, wantDefault = `"s"`, `"s"`
	case 3:
		argLeaf = "String"
		argShape = "L"
		argDef, wantDefault = `["a","b"]`, `["a","b"]`
	case 4:
		// an input object literal
		argLeaf = "IN"
		argShape = ""
		argDef, wantDefault = `{x: 5, y: "t"}`, `{x:5,y:"t"}`
	case 5:
		// a number given for a custom scalar
		argLeaf = "S"
		argShape = ""
		argDef, wantDefault = `30`, `30`
	case 6:
		argDef, wantDefault = "-3", "-3"
	case 7:
		argLeaf = "Float"
		argDef, wantDefault = "-1.5e3", "-1.5e3"
	case 8:
		// an explicit null default of a String argument is the null literal, not the string "null"
		argLeaf = "String"
		argDef, wantDefault = "null", "null"
	}
	args := []interface{}{v15InputValue("a", argShape, argLeaf, argDef)}
	// the enum-typed positions with a default are nullable (E = A) or non-null (E! = A)
	enumShape := []string{"", "N"}[verifChoice("enumshape", 2)]

	o := v15Type("OBJECT", "O")
	o["fields"] = []interface{}{
		v15Field("f", shape, "Int", args, deprecated, descr),
		v15Field("e", "", "E", []interface{}{v15InputValue("order", enumShape, "E", "A")}, false, ""),
		v15Field("s", "", "S", []interface{}{}, false, ""),
	}
	o["interfaces"] = []interface{}{v15TypeRef("", "I"), v15TypeRef("", "I2")}
	p := v15Type("OBJECT", "P")
	p["fields"] = []interface{}{v15Field("g", "N", "Int", []interface{}{}, false, "")}
	p["interfaces"] = []interface{}{}
	i := v15Type("INTERFACE", "I")
	i["fields"] = []interface{}{v15Field("e", "", "E", []interface{}{v15InputValue("order", enumShape, "E", "A")}, false, "")}
	i["possibleTypes"] = []interface{}{v15TypeRef("", "O")}
	i["interfaces"] = []interface{}{}
	// an interface that implements another interface
	i2 := v15Type("INTERFACE", "I2")
	i2["fields"] = []interface{}{v15Field("e", "", "E", []interface{}{v15InputValue("order", enumShape, "E", "A")}, false, ""), v15Field("s", "", "S", []interface{}{}, false, "")}
	i2["interfaces"] = []interface{}{v15TypeRef("", "I")}
	i2["possibleTypes"] = []interface{}{v15TypeRef("", "O")}
	u := v15Type("UNION", "U")
	u["possibleTypes"] = []interface{}{v15TypeRef("", "O"), v15TypeRef("", "P")}
	e := v15Type("ENUM", "E")
	e["enumValues"] = []interface{}{
		map[string]interface{}{"name": "A", "description": "", "isDeprecated": false, "deprecationReason": nil},
		map[string]interface{}{"name": "B", "description": "", "isDeprecated": deprecated, "deprecationReason": nil},
	}
	in := v15Type("INPUT_OBJECT", "IN")
	inDefault := verifChoice("inputdefault", 2) == 1
	var xdef interface{}
	if inDefault {
		xdef = "7"
	}
	in["inputFields"] = []interface{}{v15InputValue("x", "", "Int", xdef), v15InputValue("y", "N", "String", `"d"`), v15InputValue("m", enumShape, "E", "A")}
	q := v15Type("OBJECT", "Query")
	q["fields"] = []interface{}{
		v15Field("o", "", "O", []interface{}{v15InputValue("in", "", "IN", nil)}, false, ""),
		v15Field("u", "L", "U", []interface{}{}, false, ""),
	}
	q["interfaces"] = []interface{}{}
	m := v15Type("OBJECT", "Mutation")
	m["fields"] = []interface{}{v15Field("set", "", "Int", []interface{}{}, false, "")}
	m["interfaces"] = []interface{}{}
	types := []interface{}{q, o, p, i, i2, u, e, in, v15Scalar("S"), v15Scalar("Int"), v15Scalar("Float"), v15Scalar("String"), v15Scalar("Boolean")}
	if withMutation {
		types = append(types, m)
	}
	switch malformed {
	case 1:
		bad := v15Field("bad", "", "Int", []interface{}{}, false, "")
		bad["type"] = map[string]interface{}{"kind": "NON_NULL", "name": nil, "ofType": nil}
		p["fields"] = append(p["fields"].([]interface{}), bad)
	case 2:
		u["possibleTypes"] = append(u["possibleTypes"].([]interface{}), map[string]interface{}{"kind": "OBJECT", "name": nil, "ofType": nil})
	case 3:
		u["possibleTypes"] = append(u["possibleTypes"].([]interface{}), v15TypeRef("", "Ghost"))
	}
	var dargs []interface{}
	if dirArgs == 1 {
		dargs = []interface{}{v15InputValue("n", "", "Int", "1"), v15InputValue("e", enumShape, "E", "A")}
	} else {
		dargs = []interface{}{}
	}
	if malformed == 4 {
		badArg := v15InputValue("broken", "", "Int", nil)
		badArg["type"] = map[string]interface{}{"kind": "NON_NULL", "name": nil, "ofType": nil}
		dargs = append(dargs, badArg)
	}
	schema := map[string]interface{}{
		"queryType": map[string]interface{}{"name": "Query"}, "mutationType": nil, "subscriptionType": nil,
		"types": types,
		"directives": []interface{}{
			map[string]interface{}{"name": "d", "description": "", "locations": []interface{}{"FIELD_DEFINITION", "OBJECT"}, "args": dargs},
			map[string]interface{}{"name": "skip", "description": "", "locations": []interface{}{"FIELD"}, "args": []interface{}{v15InputValue("if", "N", "Boolean", nil)}},
		},
	}
	if withMutation {
		schema["mutationType"] = map[string]interface{}{"name": "Mutation"}
	}
	qr := &v15Queryer{answer: map[string]interface{}{"__schema": schema}}
	qr.noDepFld = func() {
		if deprecated {
			// the deprecated field f of O is only listed on request
			o["fields"] = o["fields"].([]interface{})[1:]
		}
	}
	qr.noDepEnum = func() {
		if deprecated {
			e["enumValues"] = e["enumValues"].([]interface{})[:1]
		}
	}
	depSection := verifChoice("section", 2) == 1
	got, err := introspectRemoteSchema(func(string) queryer.Queryer { return qr }, "u")

	if malformed != 0 {
		verifAssert(err != nil, "a malformed introspection answer is reported as an error")
		verifReach("malformed answer rejected")
		return
	}
	verifAssert(err == nil, "a spec-compliant answer is accepted")
	if err != nil {
		return
	}
	O := got.Types["O"]
	verifAssert(O != nil && O.Kind == ast.Object, "object type with its kind")
	f := O.Fields.ForName("f")
	verifAssert(f != nil, "field present")
	verifAssert(f.Type.String() == v15TypeString(shape, "Int"), "list / non-null wrappers are reproduced at every nesting depth")
	verifAssert(f.Description == descr, "descriptions are reproduced")
	verifAssert(len(f.Arguments) == 1 && f.Arguments[0].Name == "a", "argument names are reproduced")
	verifAssert(f.Arguments[0].Type.String() == v15TypeString(argShape, argLeaf), "argument types are reproduced")
	if defKind != 0 {
		dv := f.Arguments[0].DefaultValue
		verifAssert(dv != nil && strings.ReplaceAll(dv.String(), " ", "") == strings.ReplaceAll(wantDefault, " ", ""), "argument default values are reproduced")
		if defKind == 8 && dv != nil {
			verifAssert(dv.Kind == ast.NullValue, "a null default is the null literal")
		}
	} else {
		verifAssert(f.Arguments[0].DefaultValue == nil, "no default is invented")
	}
	if deprecated && depSection {
		verifAssert(f.Directives.ForName("deprecated") != nil, "field deprecations are reproduced")
		if dd := f.Directives.ForName("deprecated"); dd != nil {
			ra := dd.Arguments.ForName("reason")
			verifAssert(ra != nil && ra.Value != nil && ra.Value.Raw == "old", "the deprecation reason is reproduced")
		}
		verifAssert(got.Types["E"].EnumValues.ForName("B").Directives.ForName("deprecated") != nil, "enum value deprecations are reproduced")
	}
	verifAssert(len(O.Interfaces) == 2 && O.Interfaces[0] == "I" && O.Interfaces[1] == "I2", "interface implementations are reproduced")
	for _, tn := range []string{"O", "I", "I2"} {
		if td := got.Types[tn]; td != nil && td.Fields.ForName("e") != nil {
			ea := td.Fields.ForName("e").Arguments.ForName("order")
			verifAssert(ea != nil && ea.DefaultValue != nil && ea.DefaultValue.Kind == ast.EnumValue && ea.DefaultValue.String() == "A", "an enum-typed argument default is an enum value, on objects and on interfaces: "+tn)
		}
	}
	I2 := got.Types["I2"]
	verifAssert(I2 != nil && I2.Kind == ast.Interface && len(I2.Interfaces) == 1 && I2.Interfaces[0] == "I", "an interface implementing an interface keeps its implements clause")
	U := got.Types["U"]
	verifAssert(U != nil && U.Kind == ast.Union && len(U.Types) == 2, "union members are reproduced")
	E := got.Types["E"]
	verifAssert(E != nil && E.Kind == ast.Enum && len(E.EnumValues) == 2, "enum values are reproduced")
	IN := got.Types["IN"]
	verifAssert(IN != nil && IN.Kind == ast.InputObject && len(IN.Fields) == 3, "input fields are reproduced")
	if IN != nil && IN.Fields.ForName("y") != nil {
		ydef := IN.Fields.ForName("y").DefaultValue
		verifAssert(ydef != nil && ydef.String() == `"d"`, "a non-null input field keeps its default")
	}
	if IN != nil && IN.Fields.ForName("m") != nil {
		mdef := IN.Fields.ForName("m").DefaultValue
		verifAssert(mdef != nil && mdef.Kind == ast.EnumValue && mdef.String() == "A", "a default of an enum-typed input field is an enum value")
	}
	if IN != nil && IN.Fields.ForName("x") != nil {
		x := IN.Fields.ForName("x")
		if inDefault {
			verifAssert(x.DefaultValue != nil && x.DefaultValue.String() == "7", "input field defaults are reproduced")
		} else {
			verifAssert(x.DefaultValue == nil, "no input default is invented")
		}
	}
	verifAssert(got.Types["S"] != nil && got.Types["S"].Kind == ast.Scalar, "custom scalars are reproduced")
	d := got.Directives["d"]
	verifAssert(d != nil && len(d.Locations) == 2, "directives and their locations are reproduced")
	if d != nil {
		verifAssert(len(d.Arguments) == 2*dirArgs, "directive arguments are reproduced")
		if ea := d.Arguments.ForName("e"); dirArgs == 1 {
			verifAssert(ea != nil && ea.DefaultValue != nil && ea.DefaultValue.Kind == ast.EnumValue && ea.DefaultValue.String() == "A", "an enum-typed directive argument default is an enum value")
		}
	}
	verifAssert(got.Query != nil && got.Query.Name == "Query", "the query root is reproduced")
	verifAssert((got.Mutation != nil) == withMutation, "the mutation root is reproduced")
	verifReach("schema reconstructed")
}
