package queryer

import (
	"encoding/json"
	"errors"
	"io"
	"net/http"
	"sync"

	"github.com/buildbuildio/pebbles/requests"
)

// C11 harness: (*MultiOpQueryer).Query -> AsyncMapReduce -> queryBatch -> fetch -> sendRequest,
// against a transport (verifDo) that records what every HTTP call carries and may fail a call.

type vBody struct{ data []byte }

func (b *vBody) Read(p []byte) (int, error) {
	if len(b.data) == 0 {
		return 0, io.EOF
	}
	n := copy(p, b.data)
	b.data = b.data[n:]
	return n, nil
}
func (b *vBody) Close() error { return nil }

var vTags = []string{"q0", "q1", "q2", "q3", "q4", "q5", "q6", "q7", "q8", "q9", "q10", "q11", "q12"}

// vCalls is indexed by the first request of the call, so the bookkeeping does not depend on the schedule
var vCalls = make([][]string, len(vTags))
var vEmptyCalls int
var vUploadCalls int
var vFailedAt = make([]bool, len(vTags))

func vIndex(tag string) int {
	for i, t := range vTags {
		if t == tag {
			return i
		}
	}
	return -1
}

// verifDo is what (*http.Client).Do becomes
func verifDo(req *http.Request) (*http.Response, error) {
	if mp := verifRequestMultipart(req); mp != nil {
		// a request that carries files travels alone, as multipart/form-data, and is answered with one object
		opsPart, _ := mp["operations"].(map[string]interface{})
		opsBytes, _ := opsPart["data"].([]byte)
		var one requests.Request
		verifAssert(json.Unmarshal(opsBytes, &one) == nil, "operations is one JSON request")
		i := vIndex(one.Query)
		verifAssert(i >= 0 && vCalls[i] == nil, "a request is sent in one HTTP call only")
		vCalls[i] = []string{one.Query}
		vSentMultipart[i] = true
		vUploadCalls++
		if vUpAnswer != 0 && !vUpFailed {
			// the service answers the first multipart call with nothing (or blanks): a failed call
			vUpFailed = true
			switch vUpAnswer {
			case 3:
				// the multipart call itself fails: a non-2xx status with a well-formed body
				b, _ := json.Marshal(map[string]interface{}{"data": map[string]interface{}{"tag": one.Query}})
				return &http.Response{StatusCode: 502, Body: &vBody{b}}, nil
			case 4:
				// ... or the connection drops after the service has read the request
				return nil, errors.New("connection reset by peer")
			}
			return &http.Response{StatusCode: 200, Body: &vBody{[]byte([]string{"", "", " \n"}[vUpAnswer])}}, nil
		}
		b, _ := json.Marshal(map[string]interface{}{"data": map[string]interface{}{"tag": one.Query}})
		return &http.Response{StatusCode: 200, Body: &vBody{b}}, nil
	}
	var ins []*requests.Request
	if err := json.Unmarshal(verifRequestBody(req), &ins); err != nil {
		verifAssert(false, "the HTTP body is a JSON array of requests")
	}
	if len(ins) == 0 {
		vEmptyCalls++
		return &http.Response{StatusCode: 200, Body: &vBody{[]byte("[]")}}, nil
	}
	var tags []string
	for _, r := range ins {
		tags = append(tags, r.Query)
	}
	first := vIndex(tags[0])
	verifAssert(vCalls[first] == nil, "a request is sent in one HTTP call only")
	for _, t := range tags {
		if ti := vIndex(t); ti >= 0 {
			verifAssert(!vSentMultipart[ti], "a request that travelled as multipart/form-data is not sent again in a batch")
		}
	}
	vCalls[first] = tags
	status := 200
	if !vNoFail && verifBool("failcall_"+vTags[first]) {
		vFailedAt[first] = true
		switch vFailKind {
		case 0:
			return nil, errors.New("transport error")
		case 1:
			// the call fails with a non-2xx status although its body is a well-formed answer
			status = 502
		default:
			// the service answers its first request with GraphQL errors: with a message (2), or with
			// nothing but extensions (3: the message member is missing)
			out := make([]map[string]interface{}, len(ins))
			for i, r := range ins {
				out[i] = map[string]interface{}{"data": map[string]interface{}{"tag": r.Query}}
			}
			e := map[string]interface{}{"extensions": map[string]interface{}{"code": "INTERNAL"}}
			if vFailKind == 2 {
				e["message"] = "boom"
			}
			out[0] = map[string]interface{}{"data": nil, "errors": []interface{}{e}}
			b, _ := json.Marshal(out)
			return &http.Response{StatusCode: 200, Body: &vBody{b}}, nil
		}
	}
	out := make([]map[string]interface{}, len(ins))
	emptyErrs := vEmptyErrs
	for i, r := range ins {
		out[i] = map[string]interface{}{"data": map[string]interface{}{"tag": r.Query}}
		if vEmptyData && r.Query == vTags[0] {
			// a legal healthy answer: every root field of the sub-request was skipped
			out[i] = map[string]interface{}{"data": map[string]interface{}{}}
		}
		if emptyErrs {
			out[i]["errors"] = []interface{}{} // legal: a healthy answer with an empty errors list
		}
	}
	b, _ := json.Marshal(out)
	return &http.Response{StatusCode: status, Body: &vBody{b}}, nil
}

var vEmptyErrs bool
var vEmptyData bool // the first request is answered with {"data": {}}
var vNoFail bool // the transport is healthy from here on
var vFailKind int // how a failing call fails: transport error, 502 with a well-formed body, GraphQL errors with / without a message
var vSentMultipart = make([]bool, len(vTags))
var vUpAnswer int  // 0: multipart calls are answered normally; 1, 2: the first one is answered with an empty / blank body; 3: with status 502; 4: the connection drops
var vUpFailed bool

// verifNewCancel backs context.WithCancel (engine model): a done channel and its cancel function
func verifNewCancel() (chan struct{}, func()) {
	ch := make(chan struct{})
	done := false
	var mu sync.Mutex // cancel functions may be called from any goroutine
	return ch, func() {
		mu.Lock()
		if !done {
			done = true
			close(ch)
		}
		mu.Unlock()
	}
}

func VerifQuery() {
	vEmptyErrs = verifBool("emptyerrors") // every healthy answer of this run carries "errors": [] or none does
	vFailKind = verifChoice("failkind", 4)
	vEmptyData = verifBool("emptydata")
	N := verifChoice("N", verifParam("nmax", 3)+1)
	m := verifInt("m", 1, verifParam("mmax", 2))
	q := &MultiOpQueryer{url: "u", client: &http.Client{Transport: vNativeTransport{verifDo}}, maxBatchSize: m}
	inputs := make([]*requests.Request, N)
	for i := range inputs {
		inputs[i] = &requests.Request{Query: vTags[i]}
	}
	res, err := q.Query(inputs)
	seen := make([]int, N)
	ncalls := 0
	for _, c := range vCalls {
		if c == nil {
			continue
		}
		ncalls++
		verifAssert(len(c) >= 1, "no empty HTTP call")
		verifAssert(len(c) <= m, "a call never carries more than m requests")
		for _, t := range c {
			if i := vIndex(t); i >= 0 && i < N {
				seen[i]++
			}
		}
	}
	verifAssert(vEmptyCalls == 0, "no HTTP call with an empty batch")
	vFailed := false
	for _, f := range vFailedAt {
		vFailed = vFailed || f
	}
	if vFailed {
		verifAssert(err != nil, "a failed call is reported as an error")
		verifAssert(res == nil, "no partial results next to an error")
		verifReach("some call failed")
		return
	}
	verifAssert(err == nil, "no error when no call failed")
	verifAssert(len(res) == N, "exactly N results")
	for i := 0; i < N; i++ {
		verifAssert(seen[i] == 1, "every request is sent in exactly one call")
		if vEmptyData && i == 0 {
			verifAssert(res[i] != nil && len(res[i]) == 0, "an empty data object is an answer, not a failure")
			continue
		}
		verifAssert(res[i] != nil && res[i]["tag"] == vTags[i], "result i answers request i")
	}
	if ncalls >= 2 {
		verifReach("several chunks")
	}
	if N == 0 {
		verifReach("empty input")
	}
	// the queryer is not used up by a call: the next call on the same queryer (the executor makes one
	// per level) is served like the first
	if N >= 1 {
		vNoFail = true
		for i := range vCalls {
			vCalls[i] = nil
		}
		res2, err2 := q.Query([]*requests.Request{{Query: vTags[len(vTags)-1]}})
		verifAssert(err2 == nil && len(res2) == 1 && res2[0] != nil && res2[0]["tag"] == vTags[len(vTags)-1], "the next call on the same queryer is served as well")
		verifReach("second call")
	}
}

// VerifMixedUploads: requests that carry files are sent alone (multipart), the others in batches of at
// most m; whatever the positions of the two kinds, result i answers request i and every request is
// sent exactly once.
func VerifMixedUploads() {
	vNoFail = true
	N := 1 + verifChoice("N", verifParam("nmax", 4))
	m := verifInt("m", 1, verifParam("mmax", 3))
	q := &MultiOpQueryer{url: "u", client: &http.Client{Transport: vNativeTransport{verifDo}}, maxBatchSize: m}
	inputs := make([]*requests.Request, N)
	nup := 0
	for i := range inputs {
		inputs[i] = &requests.Request{Query: vTags[i]}
		if verifChoice("upload"+verifItoa(i), 2) == 1 {
			nup++
			inputs[i].Variables = map[string]interface{}{"f": &requests.Upload{File: &vBody{[]byte("bytes of " + vTags[i])}, FileName: "f" + verifItoa(i)}}
		}
	}
	if nup > 0 {
		vUpAnswer = verifChoice("upanswer", 5)
	}
	res, err := q.Query(inputs)
	if vUpFailed {
		verifAssert(err != nil, "a multipart call that fails or is answered with nothing is reported as an error")
		verifAssert(res == nil, "no partial results next to an error")
		verifReach("upload answered with nothing")
		return
	}
	verifAssert(err == nil, "no error when no call failed")
	verifAssert(len(res) == N, "exactly N results")
	verifAssert(vUploadCalls == nup, "every request with files is sent in a call of its own")
	for i := 0; i < N && i < len(res); i++ {
		verifAssert(vCalls[i] != nil || vSentInBatch(vTags[i]), "every request is sent")
		verifAssert(res[i] != nil && res[i]["tag"] == vTags[i], "result i answers request i")
	}
	for _, c := range vCalls {
		verifAssert(len(c) <= m, "a call never carries more than m requests")
	}
	if nup > 0 && nup < N {
		verifReach("uploads mixed with plain requests")
	}
}

func vSentInBatch(tag string) bool {
	for _, c := range vCalls {
		for _, t := range c {
			if t == tag {
				return true
			}
		}
	}
	return false
}

// VerifSplice: one inductive step of the reducer closure of Query from an arbitrary valid
// accumulator state (which chunks are already reduced is symbolic): covers every completion
// order and every number of chunks within nmax.
func VerifSplice() {
	nmax := verifParam("nmax", 8)
	N := verifInt("N", 2, nmax)
	m := verifInt("m", 1, nmax)
	i := verifInt("i", 0, nmax)
	verifAssume(N > m) // Query only splits when lInputs > maxBatchSize
	verifAssume(i < N/m+1)
	q := &MultiOpQueryer{url: "u", maxBatchSize: m}
	reducer := verifClosure("Query$2", "q", q, "lInputs", N).(func([]map[string]interface{}, *chunkResponse) []map[string]interface{})

	n := verifConcInt(N)
	mm := verifConcInt(m)
	ii := verifConcInt(i)
	chunks := n/mm + 1
	red := make([]bool, chunks)
	for c := range red {
		if c != ii {
			red[c] = verifBool("reduced" + verifItoa(c))
		}
	}
	acc := make([]map[string]interface{}, n)
	pre := make([]map[string]interface{}, n)
	for j := 0; j < n; j++ {
		if red[j/mm] {
			acc[j] = map[string]interface{}{"tag": vTags[j]}
		}
		pre[j] = acc[j]
	}
	lo := ii * mm
	hi := lo + mm
	if hi > n {
		hi = n
	}
	resp := make([]map[string]interface{}, hi-lo)
	for k := range resp {
		resp[k] = map[string]interface{}{"tag": vTags[lo+k]}
	}
	out := reducer(acc, &chunkResponse{Index: ii, Response: resp})
	verifAssert(len(out) == n, "the accumulator keeps length N")
	for j := 0; j < n; j++ {
		if j >= lo && j < hi {
			verifAssert(out[j] != nil && out[j]["tag"] == vTags[j], "chunk i lands at its own positions")
		} else if red[j/mm] {
			verifAssert(out[j] != nil && out[j]["tag"] == vTags[j], "already reduced chunks are preserved")
		} else {
			verifAssert(out[j] == nil, "positions of pending chunks stay empty")
		}
	}
	if lo == hi {
		verifReach("empty last chunk (N multiple of m)")
	}
	if ii > 0 && hi < n {
		verifReach("middle chunk")
	}
}
