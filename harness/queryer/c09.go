package queryer

import (
	"encoding/json"
	"errors"
	"io"
	"net/http"

	"github.com/buildbuildio/pebbles/requests"
)

// C09-K1: the downstream client (Query / queryBatch / fetch / sendRequest) against a transport whose
// answer is arbitrary within the descriptor: transport error, any status, non-JSON, JSON of the wrong
// shape, an array of symbolic length, null elements, elements with errors.

type vBody struct{ data []byte }

func (b *vBody) Read(p []byte) (int, error) {
	if len(b.data) == 0 {
		return 0, io.EOF
	}
	n := copy(p, b.data)
	b.data = b.data[n:]
	return n, nil
}
func (b *vBody) Close() error { return nil }

// verifGetBodyMaker: what net/http.NewRequest installs as Request.GetBody for an in-memory body
func verifGetBodyMaker(b []byte) func() (io.ReadCloser, error) {
	return func() (io.ReadCloser, error) { return &vBody{append([]byte{}, b...)}, nil }
}

// vPadBody: a response body whose data is preceded by pad blanks (JSON permits them): a body of any size
// without materialising it (the engine's reader model counts the blanks, the native run produces them)
type vPadBody struct {
	data []byte
	err  error
	pad  int
}

func (b *vPadBody) Read(p []byte) (int, error) {
	if b.pad > 0 {
		n := len(p)
		if n > b.pad {
			n = b.pad
		}
		for i := 0; i < n; i++ {
			p[i] = ' '
		}
		b.pad -= n
		return n, nil
	}
	if len(b.data) == 0 {
		return 0, io.EOF
	}
	n := copy(p, b.data)
	b.data = b.data[n:]
	return n, nil
}
func (b *vPadBody) Close() error { return nil }

var v9Pad = -1 // >= 0: every answer is healthy and preceded by that many blanks

var v9N int
var v9Signal bool // the transport produced a failure signal
var v9Calls int

func verifDo(req *http.Request) (*http.Response, error) {
	if v9Upload != nil {
		return verifDoUpload(req)
	}
	v9Calls++
	verifAssert(v9Calls == 1, "a batch is posted exactly once, whatever the answer")
	var ins []*requests.Request
	if err := json.Unmarshal(verifRequestBody(req), &ins); err != nil {
		verifAssert(false, "the HTTP body is a JSON array of requests")
	}
	n := len(ins)
	if v9Pad >= 0 {
		elems := make([]interface{}, n)
		for i := range elems {
			elems[i] = map[string]interface{}{"data": map[string]interface{}{"tag": ins[i].Query}}
		}
		b, _ := json.Marshal(elems)
		if req.Header.Get("Accept-Encoding") != "" {
			// the service (or the web server in front of it) compresses when the client says it accepts that.
			// net/http inflates an answer only when its transport added the header itself; a caller that sets
			// Accept-Encoding gets the bytes as they came
			return &http.Response{StatusCode: 200, Header: http.Header{"Content-Encoding": []string{"gzip"}}, Body: &vPadBody{data: []byte("\x1f\x8b\x08 compressed bytes")}}, nil
		}
		return &http.Response{StatusCode: 200, Body: &vPadBody{data: b, pad: v9Pad}}, nil
	}
	if verifChoice("transport", 2) == 1 {
		v9Signal = true
		return nil, errors.New("connection refused")
	}
	status := verifInt("status", 100, 599)
	if status < 200 || status > 299 {
		v9Signal = true
	}
	var body string
	switch verifChoice("body", 6) {
	case 0: // well-formed array, length L, element kinds symbolic
		L := verifConcInt(verifInt("L", 0, n+2))
		if L != n {
			v9Signal = true
		}
		elems := make([]interface{}, L)
		healthy := L == n
		for i := 0; i < L; i++ {
			tag := "extra"
			if i < n {
				tag = ins[i].Query
			}
			kind := verifChoice("elem"+verifItoa(i), 8)
			healthy = healthy && kind == 0
			switch kind {
			case 6:
				// an errors list whose entries are null
				elems[i] = map[string]interface{}{"data": nil, "errors": []interface{}{nil}}
				v9Signal = true
			case 7:
				elems[i] = map[string]interface{}{"data": map[string]interface{}{"tag": tag}, "errors": []interface{}{nil}}
				v9Signal = true
			case 0:
				elems[i] = map[string]interface{}{"data": map[string]interface{}{"tag": tag}}
			case 5:
				// a legal healthy answer: data next to an empty errors list
				elems[i] = map[string]interface{}{"data": map[string]interface{}{"tag": tag}, "errors": []interface{}{}}
			case 1:
				elems[i] = nil
				v9Signal = true // neither data nor errors
			case 2:
				elems[i] = map[string]interface{}{"data": nil, "errors": []interface{}{map[string]interface{}{"message": "boom"}}}
				v9Signal = true
			case 3:
				elems[i] = map[string]interface{}{"data": map[string]interface{}{"tag": tag}, "errors": []interface{}{map[string]interface{}{"message": "a"}, map[string]interface{}{"message": "b", "extensions": map[string]interface{}{"code": "X"}}}}
				v9Signal = true
			case 4:
				elems[i] = map[string]interface{}{"errors": "not a list"}
				v9Signal = true
			}
		}
		b, _ := json.Marshal(elems)
		body = string(b)
		if healthy {
			// a well-formed answer followed by something else is not JSON
			switch verifChoice("tail", 3) {
			case 1:
				body += "<html>proxy error</html>"
				v9Signal = true
			case 2:
				body += ` [{"errors":[{"message":"late"}]}]`
				v9Signal = true
			}
		}
	case 1:
		body = "<html>502</html>"
		v9Signal = true
	case 2:
		body = `{"data":{"tag":"q0"}}`
		v9Signal = true
	case 3:
		body = "null"
		v9Signal = n > 0
	case 4:
		body = "17"
		v9Signal = true
	case 5:
		body = ""
		v9Signal = true
	}
	return &http.Response{StatusCode: status, Body: &vBody{[]byte(body)}}, nil
}

var v9Tags = []string{"q0", "q1", "q2", "q3"}

func VerifDownstreamAnswers() {
	n := verifChoice("n", verifParam("nmax", 2)+1)
	v9N = n
	q := &MultiOpQueryer{url: "u", client: &http.Client{Transport: vNativeTransport{verifDo}}, maxBatchSize: 10}
	inputs := make([]*requests.Request, n)
	for i := range inputs {
		inputs[i] = &requests.Request{Query: v9Tags[i]}
	}
	res, err := q.Query(inputs)
	// one Query call of up to maxBatchSize operations is one HTTP request, whatever the answer: the
	// service may have executed what it then failed to answer (C06: never duplicated by a failure)
	if n == 0 {
		verifAssert(v9Calls <= 1, "an empty batch is posted at most once")
	} else {
		verifAssert(v9Calls == 1, "a batch is posted exactly once, whatever the answer")
	}
	if v9Signal {
		verifAssert(err != nil, "a failure signal from the service is reported as an error")
		verifReach("failure signal")
	}
	if err != nil {
		verifAssert(res == nil, "no partial results next to an error")
		verifAssert(v9Signal, "a healthy, well-formed answer is not reported as an error")
		return
	}
	verifAssert(len(res) == n, "one result per request")
	for i := 0; i < n; i++ {
		verifAssert(res[i] != nil && res[i]["tag"] == v9Tags[i], "every accepted result is present and answers its own request")
	}
	verifReach("answer accepted")
}

// VerifUploadAnswers: the same obligations for a request that carries a file (it travels alone, as
// multipart/form-data, and is answered with one object instead of an array)
func VerifUploadAnswers() {
	kind := verifChoice("answer", 8)
	status := verifInt("status", 100, 599)
	signal := status < 200 || status > 299
	body := ""
	switch kind {
	case 0:
		body = `{"data":{"tag":"q0"}}`
	case 1:
		body, signal = `{"data":null}`, true
	case 2:
		body, signal = `null`, true
	case 3:
		body, signal = `{}`, true
	case 4:
		body, signal = `{"data":null,"errors":[{"message":"boom"}]}`, true
	case 5:
		body, signal = ``, true
	case 6:
		body, signal = `<html>502</html>`, true
	}
	if kind == 7 {
		signal = true // the connection drops after the service has read the request
	}
	v9Upload = func(req *http.Request) (*http.Response, error) {
		if kind == 7 {
			return nil, errors.New("connection reset by peer")
		}
		return &http.Response{StatusCode: status, Body: &vBody{[]byte(body)}}, nil
	}
	q := &MultiOpQueryer{url: "u", client: &http.Client{Transport: vNativeTransport{verifDo}}, maxBatchSize: 10}
	in := &requests.Request{Query: "q0", Variables: map[string]interface{}{"f": &requests.Upload{File: &vBody{[]byte("bytes")}, FileName: "f"}}}
	res, err := q.Query([]*requests.Request{in})
	if signal {
		verifAssert(err != nil, "a failure signal from the service is reported as an error (request with a file)")
		verifReach("upload failure signal")
	}
	if err != nil {
		verifAssert(res == nil, "no partial results next to an error")
		verifAssert(signal, "a healthy, well-formed answer is not reported as an error")
		return
	}
	verifAssert(len(res) == 1 && res[0] != nil && res[0]["tag"] == "q0", "every accepted result is present and answers its own request")
	verifReach("upload answer accepted")
}

var v9Upload func(req *http.Request) (*http.Response, error)

var v9UploadCalls int

func verifDoUpload(req *http.Request) (*http.Response, error) {
	if verifRequestMultipart(req) == nil {
		// the request with the file came (again) as a plain JSON batch
		verifAssert(false, "a request with a file travels in exactly one HTTP call, as multipart/form-data, whatever the answer")
	}
	v9UploadCalls++
	verifAssert(v9UploadCalls == 1, "a request with a file travels in exactly one HTTP call, whatever the answer")
	return v9Upload(req)
}


// VerifAnswerOfAnySize: a healthy, well-formed answer is accepted whatever its size (the size is a
// symbolic number of blanks in front of the JSON text, up to 2^30)
func VerifAnswerOfAnySize() {
	v9Pad = verifInt("pad", 0, 1<<30)
	n := 1 + verifChoice("n", 2)
	q := &MultiOpQueryer{url: "u", client: &http.Client{Transport: vNativeTransport{verifDo}}, maxBatchSize: 10}
	inputs := make([]*requests.Request, n)
	for i := range inputs {
		inputs[i] = &requests.Request{Query: v9Tags[i]}
	}
	res, err := q.Query(inputs)
	verifAssert(err == nil, "a healthy, well-formed answer is accepted whatever its size")
	verifAssert(len(res) == n, "one result per request")
	for i := 0; i < n && i < len(res); i++ {
		verifAssert(res[i] != nil && res[i]["tag"] == v9Tags[i], "every accepted result is present and answers its own request")
	}
	verifReach("answer of symbolic size accepted")
}
