package planner

import (
	"time"

	"github.com/buildbuildio/pebbles/merger"
	"github.com/buildbuildio/pebbles/requests"
	"github.com/vektah/gqlparser/v2"
	"github.com/vektah/gqlparser/v2/ast"
)

// C14-K1/K3: the caching planner against the plain planner, over histories drawn from a pool of
// operations that differ only in what the cache key might ignore, with a symbolic clock and TTL.

const v14A = `
interface Node { id: ID! }
type Human implements Node { id: ID! name(upper: Boolean): String! }
type Robot implements Node { id: ID! model: String }
type Query { node(id: ID!): Node me: Human ping: String }
type Mutation { ping: String }
`
const v14B = `
interface Node { id: ID! }
type Human implements Node { id: ID! phone(cc: Int = 7): String! }
type Query { node(id: ID!): Node }
`

type v14Op struct {
	q    string
	name string
	vars map[string]interface{}
	sel  int    // operations with the same number have the same selection set
	typ  string // operation type
}

func v14Pool() []v14Op {
	return []v14Op{
		{q: `query { ping }`, sel: 1, typ: "query"},
		{q: `mutation { ping }`, sel: 1, typ: "mutation"},
		{q: `query A { me { name phone } }`, name: "A", sel: 2, typ: "query"},
		{q: `query B { me { name phone } }`, name: "B", sel: 2, typ: "query"},
		{q: `query($u: Boolean) { me { name(upper: $u) } }`, vars: map[string]interface{}{"u": true}, sel: 3, typ: "query"},
		{q: `query($u: Boolean) { me { name(upper: $u) } }`, vars: map[string]interface{}{"u": false}, sel: 3, typ: "query"},
		{q: `{ me { ...F } } fragment F on Human { name }`, sel: 4, typ: "query"},
		{q: `{ me { ...F } } fragment F on Human { phone }`, sel: 5, typ: "query"},
		{q: `{ me { x: name } }`, sel: 6, typ: "query"},
		{q: `{ me { y: name } }`, sel: 7, typ: "query"},
		{q: `{ me { name phone } }`, sel: 2, typ: "query"},
		{q: `{ me { id name phone } }`, sel: 8, typ: "query"},
		{q: `{ node(id: "1") { ... on Node { ... on Human { name phone } } } }`, sel: 9, typ: "query"},
	}
}

func v14Same(a, b []*QueryPlanStep, path string) {
	verifAssert(len(a) == len(b), "cached plan has the same steps as a fresh one"+path)
	if len(a) != len(b) {
		return
	}
	for i := range a {
		x, y := a[i], b[i]
		verifAssert(x.URL == y.URL, "same service"+path)
		verifAssert(x.ParentType == y.ParentType, "same parent type"+path)
		verifAssert(x.QueryString == y.QueryString, "same sub-request text"+path)
		verifAssert((x.OperationName == nil) == (y.OperationName == nil), "same operation name"+path)
		if x.OperationName != nil && y.OperationName != nil {
			verifAssert(*x.OperationName == *y.OperationName, "same operation name"+path)
		}
		verifAssert(len(x.VariablesList) == len(y.VariablesList), "same variables"+path)
		for j := range x.VariablesList {
			if j < len(y.VariablesList) {
				verifAssert(x.VariablesList[j] == y.VariablesList[j], "same variables"+path)
			}
		}
		verifAssert(len(x.InsertionPoint) == len(y.InsertionPoint), "same insertion point"+path)
		for j := range x.InsertionPoint {
			if j < len(y.InsertionPoint) {
				verifAssert(x.InsertionPoint[j] == y.InsertionPoint[j], "same insertion point"+path)
			}
		}
		v14Same(x.Then, y.Then, path+"/then")
	}
}

func v14SameScrub(a, b ScrubFields) {
	verifAssert(len(a) == len(b), "same scrub table")
	for k, m := range a {
		verifAssert(len(b[k]) == len(m), "same scrub table: "+k)
		for t, fs := range m {
			verifAssert(len(b[k][t]) == len(fs), "same scrub table: "+k+" "+t)
			for _, f := range fs {
				found := false
				for _, g := range b[k][t] {
					found = found || f == g
				}
				verifAssert(found, "same scrub table: "+k+" "+t+" "+f)
			}
		}
	}
}

type v14Env struct {
	schema *ast.Schema
	tum    merger.TypeURLMap
}

func v14Setup() *v14Env {
	sa, e1 := gqlparser.LoadSchema(&ast.Source{Name: "a", Input: v14A})
	sb, e2 := gqlparser.LoadSchema(&ast.Source{Name: "b", Input: v14B})
	if e1 != nil || e2 != nil {
		panic("harness schemas do not load")
	}
	var mf merger.ExtendMergerFunc
	mr, err := mf.Merge([]*merger.MergeInput{{Schema: sa, URL: "svc0"}, {Schema: sb, URL: "svc1"}})
	if err != nil {
		panic("harness schemas do not merge: " + err.Error())
	}
	return &v14Env{mr.Schema, mr.TypeURLMap}
}

func (e *v14Env) ctx(op v14Op) *PlanningContext {
	doc, err := gqlparser.LoadQuery(e.schema, op.q)
	if err != nil {
		panic("harness operation invalid: " + op.q)
	}
	o := doc.Operations[0]
	req := &requests.Request{Query: op.q, Variables: op.vars}
	if op.name != "" {
		n := op.name
		req.OperationName = &n
	}
	return &PlanningContext{Operation: o, Request: req, Schema: e.schema, TypeURLMap: e.tum}
}

func VerifCacheHistory() {
	env := v14Setup()
	pool := v14Pool()
	ttl := []time.Duration{0, 1, 10}[verifChoice("ttl", 3)]
	cp := NewCachedPlanner(ttl)
	h := 1 + verifChoice("h", verifParam("hmax", 3))
	var sp SequentialPlanner
	var hist []v14Op
	for t := 0; t < h; t++ {
		i := verifChoice("op"+verifItoa(t), len(pool))
		op := pool[i]
		verifLog("op: " + op.q)
		hist = append(hist, op)
		got, gerr := cp.Plan(env.ctx(op))
		want, werr := sp.Plan(env.ctx(op))
		verifAssert((gerr == nil) == (werr == nil), "the caching planner fails iff the plain planner fails")
		if werr != nil {
			verifReach("unplannable operation")
		}
		if gerr != nil || werr != nil {
			continue
		}
		verifAssert(got != nil && want != nil, "a successful planning returns a plan")
		v14Same(got.RootSteps, want.RootSteps, "")
		v14SameScrub(got.ScrubFields, want.ScrubFields)
	}
	if h >= 2 {
		verifReach("history of several requests")
	}
}

// K3: two concurrent Plan calls (same key / different keys), every interleaving, race detector on
func VerifCacheConcurrent() {
	env := v14Setup()
	pool := v14Pool()
	cp := NewCachedPlanner(10)
	a := pool[[]int{2, 10}[verifChoice("a", 2)]]
	b := pool[[]int{2, 10, 0}[verifChoice("b", 3)]]
	ca, cb := env.ctx(a), env.ctx(b)
	// on a fresh cache, or on one that holds an entry of an earlier request whose time to live may have
	// passed (the clock is symbolic): both concurrent calls then clean the cache
	if verifChoice("warm", 2) == 1 {
		cp.Plan(env.ctx(pool[[]int{2, 0}[verifChoice("w", 2)]]))
		verifReach("concurrent plans on a used cache")
	}
	done := make(chan *QueryPlan)
	go func() {
		p, _ := cp.Plan(ca)
		done <- p
	}()
	go func() {
		p, _ := cp.Plan(cb)
		done <- p
	}()
	p1, p2 := <-done, <-done
	verifAssert(p1 != nil && p2 != nil, "both concurrent requests are planned")
	var sp SequentialPlanner
	wa, _ := sp.Plan(env.ctx(a))
	wb, _ := sp.Plan(env.ctx(b))
	// each result equals one of the two expected plans (completion order is arbitrary)
	okA := p1.RootSteps[0].QueryString == wa.RootSteps[0].QueryString || p1.RootSteps[0].QueryString == wb.RootSteps[0].QueryString
	okB := p2.RootSteps[0].QueryString == wa.RootSteps[0].QueryString || p2.RootSteps[0].QueryString == wb.RootSteps[0].QueryString
	verifAssert(okA && okB, "concurrent requests receive plans of the submitted operations")
	verifReach("concurrent plans")
}
