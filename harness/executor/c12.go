package executor

import (
	"strconv"
	"encoding/json"

	"github.com/vektah/gqlparser/v2/ast"

	"github.com/buildbuildio/pebbles/gqlerrors"
	"github.com/buildbuildio/pebbles/planner"
	"github.com/buildbuildio/pebbles/queryer"
	"github.com/buildbuildio/pebbles/requests"
)

// C12-K1: de-duplication of identical lookups inside one level (executeRequests / setIMap / indexMap),
// entity ids are symbolic atoms: every equality pattern among them is covered by the solver's case split.

type vQueryer struct {
	calls [][]*requests.Request
}

func (q *vQueryer) URL() string { return "u" }
func (q *vQueryer) Subscribe(*requests.Request, <-chan struct{}, chan *requests.Response) error {
	return nil
}
func (q *vQueryer) Query(in []*requests.Request) ([]map[string]interface{}, error) {
	q.calls = append(q.calls, in)
	out := make([]map[string]interface{}, len(in))
	for i, r := range in {
		out[i] = map[string]interface{}{"node": map[string]interface{}{"id": r.Variables["id"], "tag": r.Query}}
	}
	return out, nil
}

func VerifDedup() {
	k := 1 + verifChoice("k", verifParam("kmax", 4))
	stepA := &planner.QueryPlanStep{URL: "u", ParentType: "Human", QueryString: "qA", QueryStringHash: [32]byte{1}}
	stepB := &planner.QueryPlanStep{URL: "u", ParentType: "Human", QueryString: "qB", QueryStringHash: [32]byte{2}}
	reqVars := map[string]interface{}(nil)
	withVar := verifChoice("clientvar", 2) == 1
	if withVar {
		stepA.VariablesList = []string{"v"}
		reqVars = map[string]interface{}{"v": 1}
	}
	hint := verifChoice("hint", 3)
	ctx := &ExecutionContext{Request: &requests.Request{Variables: reqVars}}
	q := &vQueryer{}
	ctx.Queryers = map[string]queryer.Queryer{"u": q}
	switch hint {
	case 1:
		ctx.GetParentTypeFromIDFunc = func(id interface{}) (string, bool) { return "Human", true }
	case 2:
		ctx.GetParentTypeFromIDFunc = func(id interface{}) (string, bool) { return "Other", true }
	}
	de := &DepthExecutor{ctx: ctx, PointDataExtractor: &CachedPointDataExtractor{cache: make(map[string]*PointData)}, Depth: 1}
	ids := make([]string, k)
	steps := make([]*planner.QueryPlanStep, k)
	ers := make([]*ExecutionRequest, k)
	for i := 0; i < k; i++ {
		ids[i] = verifAtom("id"+verifItoa(i), k)
		steps[i] = stepA
		if verifChoice("step"+verifItoa(i), 2) == 1 {
			steps[i] = stepB
		}
		ers[i] = &ExecutionRequest{QueryPlanStep: steps[i], InsertionPoint: []string{"humans:" + verifItoa(i) + "#" + ids[i]}}
	}
	resps, err := de.executeRequests(ers)
	verifAssert(err == nil, "a healthy downstream yields no error")
	verifAssert(len(q.calls) == 1, "one batched call per service and level")
	verifAssert(len(resps) == k, "one response per execution request")
	if hint == 2 {
		verifAssert(len(q.calls[0]) == 0, "lookups the id-to-type hint rules out are not sent")
		for i := 0; i < k; i++ {
			n, has := resps[i].Response["node"]
			verifAssert(has && n == nil, "a lookup ruled out by the hint is answered with node: null")
		}
		verifReach("skipped by hint")
		return
	}
	// expected number of downstream requests: distinct (id, step) pairs among requests that carry no other variable
	distinct := 0
	for i := 0; i < k; i++ {
		isNew := true
		qualifies := !(withVar && steps[i] == stepA)
		if qualifies {
			for j := 0; j < i; j++ {
				if steps[j] == steps[i] && !(withVar && steps[j] == stepA) && ids[j] == ids[i] {
					isNew = false
				}
			}
		}
		if isNew {
			distinct++
		}
	}
	verifAssert(len(q.calls[0]) == distinct, "identical lookups of one entity with one sub-query and no other variables are sent once")
	for i := 0; i < k; i++ {
		verifAssert(resps[i] != nil && resps[i].ExecutionRequest == ers[i], "response i belongs to request i")
		node, _ := resps[i].Response["node"].(map[string]interface{})
		verifAssert(node != nil, "every request receives an answer")
		if node != nil {
			verifAssert(node["id"] == ids[i], "the answer stitched at position i is the one computed for entity i")
			verifAssert(node["tag"] == steps[i].QueryString, "the answer stitched at position i is the one computed for step i")
		}
	}
	// answers are deep copies: changing one must not change another
	if k >= 2 {
		n0, _ := resps[0].Response["node"].(map[string]interface{})
		n0["tag"] = "clobbered"
		n1, _ := resps[1].Response["node"].(map[string]interface{})
		verifAssert(n1["tag"] == steps[1].QueryString, "answers fanned out to several insertion points do not alias each other")
	}
	if distinct < k {
		verifReach("some lookups de-duplicated")
	}
	if distinct == k && k > 1 {
		verifReach("nothing to de-duplicate")
	}
}

// ---- C13: the answers of several root steps to one response key, under every interleaving ----

type vFixedQueryer struct {
	url string
	res map[string]interface{}
}

func (q *vFixedQueryer) URL() string { return q.url }
func (q *vFixedQueryer) Subscribe(*requests.Request, <-chan struct{}, chan *requests.Response) error {
	return nil
}
func (q *vFixedQueryer) Query(in []*requests.Request) ([]map[string]interface{}, error) {
	out := make([]map[string]interface{}, len(in))
	for i := range in {
		out[i] = q.res
	}
	return out, nil
}

// VerifRootMergeOrder: a node lookup with fragments on types of two (three) services is sent to each of
// them as a root step; the service that owns the entity answers an object, the others answer node: null.
// Whatever order the answers arrive in, the client gets the object.
func VerifRootMergeOrder() {
	n := 2 + verifChoice("services", verifParam("extra", 1))
	owner := verifChoice("owner", n+1) // n: nobody owns it
	other := verifChoice("other", 3)
	plan := &planner.QueryPlan{}
	qs := map[string]queryer.Queryer{}
	for i := 0; i < n; i++ {
		url := "u" + verifItoa(i)
		plan.RootSteps = append(plan.RootSteps, &planner.QueryPlanStep{URL: url, ParentType: "Query", QueryString: `{ node(id: "x") { ... on T` + verifItoa(i) + ` { f } } }`})
		var node interface{}
		if i == owner {
			node = map[string]interface{}{"f": "value"}
		} else {
			// a service that does not own the entity answers null; one that knows the id under another
			// type answers an object without the fragment's fields (empty, or with the helper id only)
			switch other {
			case 1:
				node = map[string]interface{}{}
			case 2:
				node = map[string]interface{}{"id": "x"}
			}
		}
		qs[url] = &vFixedQueryer{url: url, res: map[string]interface{}{"node": node}}
	}
	var ex ParallelExecutor
	res, err := ex.Execute(&ExecutionContext{QueryPlan: plan, Request: &requests.Request{}, Queryers: qs})
	verifAssert(err == nil, "healthy services yield no error")
	nodeRes, _ := res["node"].(map[string]interface{})
	if owner < n {
		verifAssert(nodeRes != nil && nodeRes["f"] == "value", "the answer of the service that knows the entity reaches the client, whichever answer arrives last")
	}
	// whatever the answers are, the merged result is the same under every arrival order
	ob, _ := json.Marshal(res)
	verifOutcome("services="+verifItoa(n)+" owner="+verifItoa(owner)+" other="+verifItoa(other), string(ob))
	verifReach("root answers merged")
}

// ---- C13: children of two root steps completed by one third service, under every interleaving ----

type vEchoQueryer struct{ url string }

func (q *vEchoQueryer) URL() string { return q.url }
func (q *vEchoQueryer) Subscribe(*requests.Request, <-chan struct{}, chan *requests.Response) error {
	return nil
}
func (q *vEchoQueryer) Query(in []*requests.Request) ([]map[string]interface{}, error) {
	out := make([]map[string]interface{}, len(in))
	for i, r := range in {
		id, _ := r.Variables["id"].(string)
		out[i] = map[string]interface{}{"node": map[string]interface{}{"extra": "x-" + id}}
	}
	return out, nil
}

func vObjField(name, typ string, sub ...ast.Selection) *ast.Field {
	return &ast.Field{Name: name, Alias: name, SelectionSet: sub, Definition: &ast.FieldDefinition{Name: name, Type: ast.NamedType(typ, nil)}}
}

// VerifChildrenOrder: two root services each answer one object; both objects are completed by the same
// third service, so the two lookups form one group whose order is the order in which the root answers
// arrived. The ids are symbolic among {"a", "b", "", "p#q:1"} (ids are opaque strings: the separators of the executor's own point syntax may occur in them): an empty id cannot be looked up and fails the
// operation. Whatever the interleaving, the same inputs give the same data and the same error.
func VerifChildrenOrder() {
	ids := []string{"a", "b", "", "p#q:1"}
	idA := ids[verifChoice("idA", 4)]
	idB := ids[verifChoice("idB", 4)]
	child := func(point, typ string) *planner.QueryPlanStep {
		return &planner.QueryPlanStep{URL: "u2", ParentType: typ, InsertionPoint: []string{point}, QueryString: `query($id: ID!) { node(id: $id) { ... on ` + typ + ` { extra } } }`,
			QueryStringHash: [32]byte{byte(len(typ)), typ[0]}}
	}
	idSel := &ast.Field{Name: "id", Alias: "id", Definition: &ast.FieldDefinition{Name: "id", Type: ast.NonNullNamedType("ID", nil)}}
	plan := &planner.QueryPlan{RootSteps: []*planner.QueryPlanStep{
		{URL: "u0", ParentType: "Query", QueryString: `{ getA { id } }`, SelectionSet: ast.SelectionSet{vObjField("getA", "A", idSel)}, Then: []*planner.QueryPlanStep{child("getA", "A")}},
		{URL: "u1", ParentType: "Query", QueryString: `{ getB { id } }`, SelectionSet: ast.SelectionSet{vObjField("getB", "B", idSel)}, Then: []*planner.QueryPlanStep{child("getB", "B")}},
	}}
	qs := map[string]queryer.Queryer{
		"u0": &vFixedQueryer{url: "u0", res: map[string]interface{}{"getA": map[string]interface{}{"id": idA}}},
		"u1": &vFixedQueryer{url: "u1", res: map[string]interface{}{"getB": map[string]interface{}{"id": idB}}},
		"u2": &vEchoQueryer{url: "u2"},
	}
	var ex ParallelExecutor
	res, err := ex.Execute(&ExecutionContext{QueryPlan: plan, Request: &requests.Request{}, Queryers: qs})
	outcome := ""
	if err != nil {
		// everything the client would see of the error: message, path, extensions
		eb, _ := json.Marshal(gqlerrors.FormatError(err))
		outcome = "error: " + err.Error() + " " + string(eb)
		verifAssert(idA == "" || idB == "", "healthy services and usable ids yield no error")
		verifReach("children failed")
	} else {
		verifAssert(idA != "" && idB != "", "an object without a usable id cannot be completed: that is reported")
		a, _ := res["getA"].(map[string]interface{})
		b, _ := res["getB"].(map[string]interface{})
		verifAssert(a != nil && b != nil && a["extra"] == "x-"+idA && b["extra"] == "x-"+idB, "every object is completed with the answer computed for its own id")
		outcome = "data"
		verifReach("children stitched")
	}
	verifOutcome("idA="+idA+" idB="+idB, outcome)
}

// VerifPointData: the point syntax <field>:<index>#<id> round-trips for EVERY list index a result can
// have (the index is a symbolic integer; the numeral is its decimal rendering) and for ids that contain
// the separators themselves.
func VerifPointData() {
	s := verifNumStr("index", 0, 2147483647)
	if verifChoice("concrete-index", 2) == 1 {
		s = "130" // the same with a point that is one concrete string
	}
	want, _ := strconv.Atoi(s)
	id := []string{"u1", "#7", "7", "a#b:2", ""}[verifChoice("id", 5)]
	e := &CachedPointDataExtractor{cache: make(map[string]*PointData)}
	pd, err := e.Extract("users:" + s + "#" + id)
	verifAssert(err == nil, "a point with a list index is understood, however long the list")
	if err == nil {
		verifAssert(pd.Field == "users" && pd.Index == want, "field and index are the ones written into the point")
		verifAssert(pd.ID == id, "the id is the one written into the point, separators included")
	}
	verifReach("point parsed")
}
