package requests

import (
	"strconv"
	"strings"
)

// ---------------- C07-K1: parseRequest + IsBatchMode over JSON shapes ----------------

type vDoc struct {
	text  string
	valid bool // a well-formed GraphQL-over-HTTP operation object
}

func vQueryMember(full bool) (string, bool, bool) { // text, present, valid
	n := 3
	if full {
		n = 6
	}
	switch verifChoice("query", n) {
	case 0:
		return "", false, false
	case 1:
		return `"query":"{a}"`, true, true
	case 2:
		return `"query":5`, true, false
	case 3:
		return `"query":null`, true, false
	case 4:
		return `"query":""`, true, false
	}
	return `"query":{}`, true, false
}

func vVariablesMember(full bool) (string, bool, bool) {
	n := 3
	if full {
		n = 7
	}
	switch verifChoice("variables", n) {
	case 0:
		return "", false, true
	case 1:
		return `"variables":{}`, true, true
	case 2:
		return `"variables":[]`, true, false
	case 3:
		return `"variables":null`, true, true
	case 4:
		return `"variables":{"a":1,"b":[null,{"c":"d"}]}`, true, true
	case 5:
		return `"variables":"s"`, true, false
	}
	return `"variables":3`, true, false
}

func vOpNameMember(full bool) (string, bool, bool) {
	n := 2
	if full {
		n = 4
	}
	switch verifChoice("operationName", n) {
	case 0:
		return "", false, true
	case 1:
		return `"operationName":"n"`, true, true
	case 2:
		return `"operationName":null`, true, true
	}
	return `"operationName":7`, true, false
}

func vObject(full bool) vDoc {
	q, qp, qv := vQueryMember(full)
	v, vp, vv := vVariablesMember(full)
	o, op, ov := vOpNameMember(full)
	var ms []string
	if full && verifChoice("extra", 2) == 1 {
		ms = append(ms, `"extensions":{"x":[1]}`)
	}
	if qp {
		ms = append(ms, q)
	}
	if vp {
		ms = append(ms, v)
	}
	if op {
		ms = append(ms, o)
	}
	return vDoc{"{" + strings.Join(ms, ",") + "}", qv && vv && ov}
}

func vElem() vDoc {
	switch verifChoice("elem", 5) {
	case 0:
		return vDoc{"null", false}
	case 1:
		return vDoc{"1", false}
	case 2:
		return vDoc{`"s"`, false}
	case 3:
		return vDoc{"[]", false}
	}
	return vObject(false)
}

func VerifParseRequest() {
	prefix := []string{"", " \n", "x", "1"}[verifChoice("prefix", 4)]
	var doc vDoc
	isArray := false
	nElems := 0
	switch verifChoice("top", 7) {
	case 0:
		doc = vDoc{"null", false}
	case 1:
		doc = vDoc{"true", false}
	case 2:
		doc = vDoc{"12", false}
	case 3:
		doc = vDoc{`"str"`, false}
	case 4:
		doc = vDoc{"", false}
	case 5:
		doc = vObject(true)
	case 6:
		isArray = true
		nElems = verifChoice("len", verifParam("maxlen", 2)+1)
		valid := true
		var parts []string
		for i := 0; i < nElems; i++ {
			e := vElem()
			parts = append(parts, e.text)
			valid = valid && e.valid
		}
		doc = vDoc{"[" + strings.Join(parts, ",") + "]", valid}
	}
	if prefix == "x" || prefix == "1" {
		doc.valid = false
	}
	body := []byte(prefix + doc.text)
	verifLog(string(body))
	res, err := parseRequest(body)
	if err != nil {
		verifAssert(res == nil, "no result next to an error")
		verifAssert(!doc.valid, "a well-formed operation (or batch of them) is accepted")
		verifReach("rejected")
		return
	}
	verifAssert(res != nil, "a result or an error")
	verifAssert(doc.valid, "a malformed body is rejected with an error")
	verifAssert(res.IsBatchMode == isArray, "batch mode iff the body is an array")
	if isArray {
		verifAssert(len(res.Requests) == nElems, "one request per array element")
		verifReach("accepted batch")
	} else {
		verifAssert(len(res.Requests) == 1, "one request")
		verifReach("accepted single")
	}
	for _, r := range res.Requests {
		verifAssert(r != nil, "no nil request is handed on")
		verifAssert(r.Query != "", "every accepted request has a query")
	}
}

// ---------------- C07-K2: injectFile over path strings and variable trees ----------------

func vSeg(i int) string {
	switch verifChoice("segkind", 7) {
	case 0:
		return verifNumStr("n"+verifItoa(i), -2, 3)
	case 1:
		return "variables"
	case 2:
		return "f"
	case 3:
		return "in"
	case 4:
		return "fs"
	case 5:
		return "zz"
	}
	return ""
}

func vVars() map[string]interface{} {
	switch verifChoice("vars", 7) {
	case 5:
		return map[string]interface{}{"f": nil, "zz": nil}
	case 0:
		return map[string]interface{}{"f": nil}
	case 1:
		return map[string]interface{}{"in": map[string]interface{}{"f": nil}}
	case 2:
		return map[string]interface{}{"fs": []interface{}{nil, nil}}
	case 3:
		return map[string]interface{}{"fs": []interface{}{nil, "x"}}
	case 4:
		return map[string]interface{}{"f": "taken", "in": map[string]interface{}{"fs": []interface{}{nil}}}
	}
	return nil
}

// vCount counts occurrences of the upload in a variables tree
func vCount(v interface{}, up *Upload) int {
	switch x := v.(type) {
	case *Upload:
		if x == up {
			return 1
		}
	case map[string]interface{}:
		n := 0
		for _, e := range x {
			n += vCount(e, up)
		}
		return n
	case []interface{}:
		n := 0
		for _, e := range x {
			n += vCount(e, up)
		}
		return n
	}
	return 0
}

// vAt follows a path (segments after "variables") and returns what sits there
func vAt(vars map[string]interface{}, segs []string) (interface{}, bool) {
	var cur interface{} = vars
	for _, s := range segs {
		switch x := cur.(type) {
		case map[string]interface{}:
			v, ok := x[s]
			if !ok {
				return nil, false
			}
			cur = v
		case []interface{}:
			i, err := strconv.Atoi(s)
			if err != nil || i < 0 || i >= len(x) {
				return nil, false
			}
			cur = x[i]
		default:
			return nil, false
		}
	}
	return cur, true
}

func VerifInjectFile() {
	r := &ParseRequestResponse{IsBatchMode: verifBool("batch")}
	nreq := 1 + verifChoice("nreq", 2)
	if !r.IsBatchMode && nreq != 1 {
		return
	}
	for i := 0; i < nreq; i++ {
		r.Requests = append(r.Requests, &Request{Query: "q", Variables: vVars()})
	}
	nseg := 1 + verifChoice("nseg", verifParam("maxseg", 4))
	segs := make([]string, nseg)
	for i := range segs {
		segs[i] = vSeg(i)
	}
	path := strings.Join(segs, ".")
	up := &Upload{FileName: "a"}
	err := r.injectFile(up, []string{path})
	total := 0
	for _, q := range r.Requests {
		total += vCount(q.Variables, up)
	}
	if err != nil {
		verifReach("path rejected")
		return
	}
	verifAssert(total <= 1, "the upload is attached at most once per path")
	if total == 0 {
		// a path that ends at an object is accepted without attaching anything: not a crash,
		// and not a well-formed multipart request (C19 covers well-formed ones)
		verifReach("path accepted without attachment")
		return
	}
	verifReach("upload injected")
	// the position is the one the path names
	idx := 0
	rest := segs
	if r.IsBatchMode {
		n, aerr := strconv.Atoi(segs[0])
		verifAssert(aerr == nil, "batch paths start with the operation index")
		idx = n
		rest = segs[1:]
	}
	verifAssert(idx >= 0 && idx < len(r.Requests), "the operation index is in range")
	verifAssert(len(rest) >= 2 && rest[0] == "variables", "the path goes through the variables member")
	got, ok := vAt(r.Requests[idx].Variables, rest[1:])
	verifAssert(ok, "the named position exists")
	u, isUp := got.(*Upload)
	verifAssert(isUp && u == up, "the upload sits where the path says")
}
